// spellings (C17, lookup clause): each type is registered in a table once and looked up under several spellings —
// short, fully qualified, mixed, with other whitespace; the name the table answers with is then probed like the others.
// A spelling the normaliser does not map to the registered key makes the lookup panic (reported as such).
fn spelling_chunk(v: &mut Vec<(&'static str, String)>) {
    use truc::record::type_resolver::StaticTypeResolver;
    let mut table = StaticTypeResolver::new();
    table.add_type::<Option<String>>();
    table.add_type::<Result<u8, String>>();
    table.add_type::<Vec<Result<String, u8>>>();
    table.add_type::<Box<Option<Vec<u8>>>>();
    table.add_type::<(String, Vec<u8>)>();
    table.add_type::<[Option<String>; 2]>();
    table.add_type::<Box<[String]>>();
    table.add_type::<corpus_types::Pair<Option<String>, Box<str>>>();
    table.add_type::<String>();
    table.add_type::<Vec<u8>>();
    v.push((stringify!(Option<String>), table.dynamic_type_info("Option<alloc::string::String>").info.name));
    v.push((stringify!(Option<String>), table.dynamic_type_info("core::option::Option<String>").info.name));
    v.push((stringify!(Option<String>), table.dynamic_type_info(" Option < String > ").info.name));
    v.push((stringify!(Option<String>), table.dynamic_type_info("core::option::Option<alloc::string::String>").info.name));
    v.push((stringify!(Result<u8, String>), table.dynamic_type_info("Result<u8, alloc::string::String>").info.name));
    v.push((stringify!(Result<u8, String>), table.dynamic_type_info("core::result::Result<u8,String>").info.name));
    v.push((stringify!(Result<u8, String>), table.dynamic_type_info("Result<u8,String>").info.name));
    v.push((stringify!(Vec<Result<String, u8>>), table.dynamic_type_info("alloc::vec::Vec<Result<alloc::string::String, u8>>").info.name));
    v.push((stringify!(Vec<Result<String, u8>>), table.dynamic_type_info("Vec<core::result::Result<String, u8>>").info.name));
    v.push((stringify!(Vec<Result<String, u8>>), table.dynamic_type_info("Vec<Result<String,u8>>").info.name));
    v.push((stringify!(Box<Option<Vec<u8>>>), table.dynamic_type_info("Box<core::option::Option<Vec<u8>>>").info.name));
    v.push((stringify!(Box<Option<Vec<u8>>>), table.dynamic_type_info("alloc::boxed::Box<Option<alloc::vec::Vec<u8>>>").info.name));
    v.push((stringify!(Box<Option<Vec<u8>>>), table.dynamic_type_info("Box < Option < Vec < u8 > > >").info.name));
    v.push((stringify!((String, Vec<u8>)), table.dynamic_type_info("(alloc::string::String,Vec<u8>)").info.name));
    v.push((stringify!((String, Vec<u8>)), table.dynamic_type_info("( String , alloc::vec::Vec<u8> )").info.name));
    v.push((stringify!([Option<String>; 2]), table.dynamic_type_info("[Option<alloc::string::String>;2]").info.name));
    v.push((stringify!([Option<String>; 2]), table.dynamic_type_info("[core::option::Option<String>; 2]").info.name));
    v.push((stringify!(Box<[String]>), table.dynamic_type_info("Box<[alloc::string::String]>").info.name));
    v.push((stringify!(Box<[String]>), table.dynamic_type_info("alloc::boxed::Box<[String]>").info.name));
    v.push((stringify!(corpus_types::Pair<Option<String>, Box<str>>), table.dynamic_type_info("corpus_types::Pair<Option<alloc::string::String>, alloc::boxed::Box<str>>").info.name));
    v.push((stringify!(corpus_types::Pair<Option<String>, Box<str>>), table.dynamic_type_info("corpus_types::Pair<core::option::Option<String>,Box<str>>").info.name));
    v.push((stringify!(String), table.dynamic_type_info("alloc::string::String").info.name));
    v.push((stringify!(String), table.dynamic_type_info(" String ").info.name));
    v.push((stringify!(Vec<u8>), table.dynamic_type_info("alloc::vec::Vec<u8>").info.name));
    v.push((stringify!(Vec<u8>), table.dynamic_type_info("Vec < u8 >").info.name));
}
