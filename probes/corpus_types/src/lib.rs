//! User-crate types for the type-name probes (C17): a dependency of both the
//! corpus build script (where truc prints their names) and the probe crate
//! (where rustc checks that the printed name denotes the same type).

#[derive(Clone, Copy, Debug, Default)]
pub struct Leaf(pub u16);

#[derive(Clone, Debug, Default)]
pub struct Pair<A, B>(pub A, pub B);

pub mod shadow {
    //! User types that share their names with std types the printer rewrites.
    #[derive(Clone, Debug, Default)]
    pub struct Box<T>(pub T);

    #[derive(Clone, Debug, Default)]
    pub struct String;

    pub mod option {
        #[derive(Clone, Debug)]
        pub enum Option<T> {
            Nope,
            Yep(T),
        }
    }
}

pub mod alloc {
    //! A user module named like the std crate whose paths the printer strips.
    pub mod vec {
        #[derive(Clone, Debug, Default)]
        pub struct Vec<T>(pub core::marker::PhantomData<T>);
    }
}
