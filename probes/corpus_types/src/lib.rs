//! User-crate types for the type-name probes (C17): a dependency of both the
//! corpus build script (where truc prints their names) and the probe crate
//! (where rustc checks that the printed name denotes the same type).

#[derive(Clone, Copy, Debug, Default)]
pub struct Leaf(pub u16);

#[derive(Clone, Debug, Default)]
pub struct Pair<A, B>(pub A, pub B);

/// Const arguments ahead of a type argument.
#[derive(Clone, Debug)]
pub struct Grid<const W: usize, const H: usize, T>(pub [[Option<T>; W]; H]);

/// A lifetime argument ahead of a type argument.
#[derive(Clone, Debug)]
pub struct Borrowed<'a, T>(pub &'a str, pub T);

pub mod shadow {
    //! User types that share their names with std types the printer rewrites.
    #[derive(Clone, Debug, Default)]
    pub struct Box<T>(pub T);

    #[derive(Clone, Debug, Default)]
    pub struct String;

    pub mod option {
        #[derive(Clone, Debug)]
        pub enum Option<T> {
            Nope,
            Yep(T),
        }
    }
}

pub mod alloc {
    //! A user module named like the std crate whose paths the printer strips.
    pub mod vec {
        #[derive(Clone, Debug, Default)]
        pub struct Vec<T>(pub core::marker::PhantomData<T>);
    }
}

// ---- user types whose paths look like the std paths the name printer rewrites -----------

macro_rules! lookalike {
    ($m:ident, $n:ident) => {
        pub mod $m {
            #[derive(Clone, Debug, Default)]
            pub struct $n<T = ()>(pub core::marker::PhantomData<T>);
        }
    };
}

// <crate>::vec::Vec, <crate>::option::Option, … (the layout of e.g. `heapless::vec::Vec`)
lookalike!(vec, Vec);
lookalike!(option, Option);
lookalike!(string, String);
lookalike!(boxed, Box);
lookalike!(result, Result);

/// <crate>::core::option::Option, <crate>::core::result::Result
pub mod core_like {
    pub mod core {
        lookalike!(option, Option);
        lookalike!(result, Result);
    }
    pub mod alloc {
        lookalike!(boxed, Box);
        lookalike!(string, String);
        lookalike!(vec, Vec);
    }
}

/// user types at the crate root named like the std ones
#[derive(Clone, Debug, Default)]
pub struct Vec<T = ()>(pub core::marker::PhantomData<T>);
#[derive(Clone, Debug, Default)]
pub struct Option<T = ()>(pub core::marker::PhantomData<T>);
