// (only types whose recorded name the pinned printer gets right: `alloc::rc::Rc`, `alloc::collections::…` and private
// `core` paths such as `core::mem::manually_drop::ManuallyDrop` are outside C17's grammar and are printed with paths
// that do not resolve in generated code — DESIGN §8.2)
// shapes added after seeds C17l / C17n / C13n: 1-tuples, unit, wider tuples, arrays of tuples / arrays, and generic
// types other than the five rewritten ones with rewritten types below them
fn extra_chunk(v: &mut Vec<(&'static str, String)>) {
    v.push((stringify!(()), HostTypeResolver.type_info::<()>().name));
    v.push((stringify!((u8,)), HostTypeResolver.type_info::<(u8,)>().name));
    v.push((stringify!((String,)), HostTypeResolver.type_info::<(String,)>().name));
    v.push((stringify!(((String,),)), HostTypeResolver.type_info::<((String,),)>().name));
    v.push((stringify!(Vec<(Option<u8>,)>), HostTypeResolver.type_info::<Vec<(Option<u8>,)>>().name));
    v.push((stringify!(Option<(String,)>), HostTypeResolver.type_info::<Option<(String,)>>().name));
    v.push((stringify!(Result<(Vec<u8>,), String>), HostTypeResolver.type_info::<Result<(Vec<u8>,), String>>().name));
    v.push((stringify!(Box<[(String,)]>), HostTypeResolver.type_info::<Box<[(String,)]>>().name));
    v.push((stringify!([(String,); 2]), HostTypeResolver.type_info::<[(String,); 2]>().name));
    v.push((stringify!((u8, String, Box<str>)), HostTypeResolver.type_info::<(u8, String, Box<str>)>().name));
    v.push((stringify!((u8, (String, Vec<u8>), Option<Box<str>>)), HostTypeResolver.type_info::<(u8, (String, Vec<u8>), Option<Box<str>>)>().name));
    v.push((stringify!(((String,), u8)), HostTypeResolver.type_info::<((String,), u8)>().name));
    v.push((stringify!([(String, u8); 2]), HostTypeResolver.type_info::<[(String, u8); 2]>().name));
    v.push((stringify!([[String; 2]; 3]), HostTypeResolver.type_info::<[[String; 2]; 3]>().name));
    v.push((stringify!([Option<Vec<String>>; 4]), HostTypeResolver.type_info::<[Option<Vec<String>>; 4]>().name));
    v.push((stringify!(Box<[[Vec<u8>; 2]]>), HostTypeResolver.type_info::<Box<[[Vec<u8>; 2]]>>().name));
    v.push((stringify!([(Vec<u8>, [String; 2]); 3]), HostTypeResolver.type_info::<[(Vec<u8>, [String; 2]); 3]>().name));
    v.push((stringify!(corpus_types::Pair<(String,), [Vec<u8>; 2]>), HostTypeResolver.type_info::<corpus_types::Pair<(String,), [Vec<u8>; 2]>>().name));
    v.push((stringify!(Vec<[(String, Option<Box<str>>); 2]>), HostTypeResolver.type_info::<Vec<[(String, Option<Box<str>>); 2]>>().name));
    v.push((stringify!(Result<[String; 2], (Vec<u8>,)>), HostTypeResolver.type_info::<Result<[String; 2], (Vec<u8>,)>>().name));
    v.push((stringify!(Option<[(u8,); 3]>), HostTypeResolver.type_info::<Option<[(u8,); 3]>>().name));
    v.push((stringify!(core::cell::RefCell<String>), HostTypeResolver.type_info::<core::cell::RefCell<String>>().name));
    v.push((stringify!(core::cell::Cell<Option<u8>>), HostTypeResolver.type_info::<core::cell::Cell<Option<u8>>>().name));
    v.push((stringify!(corpus_types::Pair<core::cell::RefCell<String>, core::cell::Cell<Option<u8>>>), HostTypeResolver.type_info::<corpus_types::Pair<core::cell::RefCell<String>, core::cell::Cell<Option<u8>>>>().name));
    v.push((stringify!(corpus_types::Grid<2, 3, String>), HostTypeResolver.type_info::<corpus_types::Grid<2, 3, String>>().name));
    v.push((stringify!(corpus_types::Grid<1, 1, Option<Vec<u8>>>), HostTypeResolver.type_info::<corpus_types::Grid<1, 1, Option<Vec<u8>>>>().name));
    v.push((stringify!(corpus_types::Borrowed<'static, String>), HostTypeResolver.type_info::<corpus_types::Borrowed<'static, String>>().name));
    v.push((stringify!(corpus_types::Pair<corpus_types::Grid<2, 2, Box<str>>, corpus_types::Borrowed<'static, Vec<String>>>), HostTypeResolver.type_info::<corpus_types::Pair<corpus_types::Grid<2, 2, Box<str>>, corpus_types::Borrowed<'static, Vec<String>>>>().name));
    v.push((stringify!(core::marker::PhantomData<String>), HostTypeResolver.type_info::<core::marker::PhantomData<String>>().name));
}
