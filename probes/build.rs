//! Type-name probes (C17): for every type of a grammar the repository's
//! printer is asked for the name it records for that type, and a probe
//!   let _: PhantomData<T> = PhantomData::<NAME>;
//! is emitted, one per line; rustc decides whether NAME denotes T.
use std::{env, fmt::Write as _, fs, panic::catch_unwind, path::PathBuf};

use serde_json::json;
use truc::record::type_resolver::{HostTypeResolver, TypeResolver};

include!("types_quick.rs");
include!("types_extra.rs");
include!("types_spellings.rs");
#[cfg(feature = "thorough")]
include!("types_thorough.rs");

pub const HEADER_LINES: usize = 1;

fn main() {
    println!("cargo:rerun-if-env-changed=PROBES_NONCE");
    println!("cargo:rerun-if-env-changed=PROBES_INDEX");
    std::panic::set_hook(Box::new(|_| {}));
    let out = PathBuf::from(env::var("OUT_DIR").unwrap());
    let list = catch_unwind(|| {
        let mut v = Vec::new();
        quick_all(&mut v);
        extra_chunk(&mut v);
        spelling_chunk(&mut v);
        #[cfg(feature = "thorough")]
        thorough_all(&mut v);
        v
    });
    let mut text = String::from("// one probe per line: line N+1 holds probe N-1\n");
    let mut index = Vec::new();
    let mut panic = None;
    match list {
        Ok(list) => {
            for (i, (src, name)) in list.iter().enumerate() {
                // (stringify! breaks long types over several lines: one probe per line is what the index relies on)
                let src = src.replace('\n', " ");
                let name = name.replace('\n', " ");
                let _ = writeln!(
                    text,
                    "pub fn p{i}() {{ let _: core::marker::PhantomData<{src}> = core::marker::PhantomData::<{name}>; }}",
                    i = i, src = src, name = name
                );
                index.push(json!({"probe": i, "type": src, "printed": name}));
            }
        }
        Err(e) => {
            panic = Some(e.downcast_ref::<String>().cloned().or_else(|| e.downcast_ref::<&str>().map(|s| s.to_string())).unwrap_or_default());
        }
    }
    fs::write(out.join("probes.rs"), text).unwrap();
    let doc = json!({"nonce": env::var("PROBES_NONCE").unwrap_or_default(), "header_lines": HEADER_LINES, "probes": index, "printer_panic": panic,
                     "file": out.join("probes.rs").display().to_string()});
    if let Ok(p) = env::var("PROBES_INDEX") {
        fs::write(p, serde_json::to_string(&doc).unwrap()).unwrap();
    }
}
