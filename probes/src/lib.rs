//! Never executed: type-checked only. Each line of the included file is one probe.
#![allow(dead_code, unused_imports, clippy::all)]
include!(concat!(env!("OUT_DIR"), "/probes.rs"));
