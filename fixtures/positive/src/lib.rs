//! Positive controls: constructs that rules whose expected count on /repo is
//! zero MUST flag on every run (a rule that cannot fire proves nothing).
use std::collections::HashMap;

/// N-DET: output order depends on the hasher's random state.
pub fn render(m: &HashMap<String, usize>) -> String {
    let mut out = String::new();
    for (k, v) in m {
        out.push_str(&format!("{}={};", k, v));
    }
    out
}

/// N-DET: environment read.
pub fn env_dependent() -> usize {
    std::env::var("X").map(|s| s.len()).unwrap_or(0)
}

/// H-HOST analogue: host layout query outside an allowed site.
pub fn host_layout<T>() -> usize {
    std::mem::size_of::<T>()
}

/// N-DET: an address used as identity, remembered in interior-mutable state.
pub struct Remember {
    last: std::cell::Cell<*const String>,
}

impl Remember {
    pub fn seen(&self, s: &String) -> bool {
        let p = s as *const String;
        self.last.replace(p) == p
    }
}

/// N-DET: state shared between calls.
pub static CALLS: std::sync::atomic::AtomicUsize = std::sync::atomic::AtomicUsize::new(0);

/// N-DET: an address turned into a number that leaves the function.
pub fn address_of(s: &String) -> usize {
    unsafe { std::mem::transmute::<*const String, usize>(s as *const String) }
}

/// Not N-DET: dereferencing a raw pointer makes rustc (debug assertions) turn the pointer into an
/// integer for its alignment / null checks only; the fixture must *not* be flagged for this one.
pub fn through_raw(p: *const u32) -> u32 {
    unsafe { *p }
}

/// N-DET: an order decided by addresses, the comparison itself being inside the standard library.
pub fn by_address(v: &mut Vec<&str>) {
    v.sort_unstable_by_key(|s| (s.as_ptr(), s.len()));
}

/// Not N-DET: raw pointers that are only stored and handed back are no key of anything.
pub fn keep_pointers(v: &[u32]) -> Vec<*const u32> {
    let mut out = Vec::new();
    for x in v {
        out.push(x as *const u32);
    }
    out
}

/// B-CURRENT: an adaptor that cuts a walk short.
pub fn leading_positive(v: &[u32]) -> Vec<u32> {
    v.iter().cloned().take_while(|x| *x > 0).collect()
}

/// B-GUARD: a search predicate that is not an equality test.
pub fn first_at_least(v: &[u32], x: u32) -> Option<usize> {
    v.iter().position(|&y| y >= x)
}
