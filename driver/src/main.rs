//! mirdump: a rustc driver that serialises facts rustc computed (MIR bodies,
//! resolved callees, item tables, layouts, auto-trait answers, evaluated
//! constants) to one JSON file per crate. It contains no verification rule.
//!
//! Usage: injected through RUSTC_WORKSPACE_WRAPPER (argv[1] is the real
//! rustc and is dropped). Environment:
//!   MIRDUMP_OUT    directory to write `<crate>-<stable id>.json` into (required to dump)
//!   MIRDUMP_NONCE  echoed into the file
//!   MIRDUMP_CRATES optional comma list of crate names to dump (default: all)
#![feature(rustc_private)]
#![feature(box_patterns)]
extern crate rustc_abi;
extern crate rustc_driver;
extern crate rustc_hir;
extern crate rustc_infer;
extern crate rustc_interface;
extern crate rustc_middle;
extern crate rustc_session;
extern crate rustc_span;
extern crate rustc_trait_selection;

mod json;
use json::{opt, s, J};

use std::collections::BTreeMap;

use rustc_driver::Compilation;
use rustc_hir::def::DefKind;
use rustc_hir::def_id::{DefId, LocalDefId, LOCAL_CRATE};
use rustc_infer::infer::TyCtxtInferExt;
use rustc_interface::interface::Compiler;
use rustc_middle::mir::{
    self, AggregateKind, BasicBlockData, Body, BorrowKind, CastKind, Const, NonDivergingIntrinsic,
    Operand, Place, PlaceElem, Rvalue, StatementKind, TerminatorKind, UnwindAction,
    VarDebugInfoContents,
};
use rustc_middle::ty::print::{with_crate_prefix, with_no_trimmed_paths, with_no_visible_paths};
use rustc_middle::ty::{self, GenericArgKind, GenericArgsRef, Ty, TyCtxt, TypeVisitableExt, TypingEnv};
use rustc_span::Span;
use rustc_trait_selection::infer::InferCtxtExt;

struct Cx<'tcx> {
    tcx: TyCtxt<'tcx>,
    types: BTreeMap<String, J>,
    send_trait: Option<DefId>,
    sync_trait: Option<DefId>,
    copy_trait: Option<DefId>,
}

thread_local! {
    static CRATE_NAME: std::cell::RefCell<String> = std::cell::RefCell::new(String::new());
}

/// Local paths are printed as `crate::…` by rustc; make them `<crate name>::…`
/// so that facts from different crates use the same names.
fn fix(st: String) -> String {
    if st.contains("crate::") {
        CRATE_NAME.with(|c| st.replace("crate::", &format!("{}::", c.borrow())))
    } else {
        st
    }
}

macro_rules! pr {
    ($e:expr) => {
        fix(with_crate_prefix!(with_no_visible_paths!(with_no_trimmed_paths!($e))))
    };
}

fn tystr<'tcx>(ty: Ty<'tcx>) -> String {
    pr!(ty.to_string())
}

impl<'tcx> Cx<'tcx> {
    fn path(&self, did: DefId) -> String {
        pr!(self.tcx.def_path_str(did))
    }

    fn span(&self, sp: Span) -> J {
        let sm = self.tcx.sess.source_map();
        // Use the outermost call site for macro-expanded code so that the
        // location is in the file the user sees.
        let lo = sm.lookup_char_pos(sp.lo());
        let file = match &lo.file.name {
            rustc_span::FileName::Real(r) => match r.local_path() {
                Some(p) => p.display().to_string(),
                None => format!("{:?}", r),
            },
            other => format!("{:?}", other),
        };
        J::Obj(vec![
            ("file", s(file)),
            ("line", J::Int(lo.line as i128)),
            ("col", J::Int(lo.col.0 as i128 + 1)),
            ("exp", J::Bool(sp.from_expansion())),
        ])
    }

    /// Structural description of a type; also registers facts for it.
    fn ty(&mut self, ty: Ty<'tcx>) -> J {
        let key = tystr(ty);
        if !self.types.contains_key(&key) {
            // insert placeholder first (recursive types)
            self.types.insert(key.clone(), J::Null);
            let info = self.type_info(ty);
            self.types.insert(key.clone(), info);
        }
        J::Str(key)
    }

    fn generic_args(&mut self, args: GenericArgsRef<'tcx>) -> J {
        let mut v = Vec::new();
        for a in args.iter() {
            match a.kind() {
                GenericArgKind::Type(t) => v.push(J::Obj(vec![("ty", self.ty(t))])),
                GenericArgKind::Const(c) => {
                    let val = c.try_to_target_usize(self.tcx);
                    v.push(J::Obj(vec![
                        ("const", s(pr!(format!("{}", c)))),
                        ("val", opt(val, |x| J::Int(x as i128))),
                    ]))
                }
                GenericArgKind::Lifetime(_) => {}
            }
        }
        J::Arr(v)
    }

    fn type_info(&mut self, ty: Ty<'tcx>) -> J {
        let tcx = self.tcx;
        let mut o: Vec<(&'static str, J)> = Vec::new();
        match ty.kind() {
            ty::Adt(def, args) => {
                o.push(("k", s("adt")));
                o.push(("path", s(self.path(def.did()))));
                o.push(("local", J::Bool(def.did().is_local())));
                o.push(("args", self.generic_args(args)));
            }
            ty::Ref(_, t, m) => {
                o.push(("k", s("ref")));
                o.push(("mut", J::Bool(m.is_mut())));
                o.push(("to", self.ty(*t)));
            }
            ty::RawPtr(t, m) => {
                o.push(("k", s("ptr")));
                o.push(("mut", J::Bool(m.is_mut())));
                o.push(("to", self.ty(*t)));
            }
            ty::Tuple(ts) => {
                o.push(("k", s("tuple")));
                let v: Vec<J> = ts.iter().map(|t| self.ty(t)).collect();
                o.push(("elems", J::Arr(v)));
            }
            ty::Array(t, n) => {
                o.push(("k", s("array")));
                o.push(("elem", self.ty(*t)));
                o.push(("len", opt(n.try_to_target_usize(tcx), |x| J::Int(x as i128))));
            }
            ty::Slice(t) => {
                o.push(("k", s("slice")));
                o.push(("elem", self.ty(*t)));
            }
            ty::Param(p) => {
                o.push(("k", s("param")));
                o.push(("index", J::Int(p.index as i128)));
                o.push(("name", s(p.name.as_str())));
            }
            ty::FnDef(did, args) => {
                o.push(("k", s("fndef")));
                o.push(("path", s(self.path(*did))));
                o.push(("args", self.generic_args(args)));
            }
            ty::Closure(did, args) => {
                o.push(("k", s("closure")));
                o.push(("path", s(self.path(*did))));
                let ups: Vec<J> = args.as_closure().upvar_tys().iter().map(|t| self.ty(t)).collect();
                o.push(("upvars", J::Arr(ups)));
            }
            ty::FnPtr(..) => o.push(("k", s("fnptr"))),
            ty::Dynamic(..) => o.push(("k", s("dyn"))),
            ty::Never => o.push(("k", s("never"))),
            ty::Bool | ty::Char | ty::Int(_) | ty::Uint(_) | ty::Float(_) | ty::Str => {
                o.push(("k", s("prim")))
            }
            ty::Alias(..) => o.push(("k", s("alias"))),
            _ => o.push(("k", s("other"))),
        }
        // Facts for closed types only.
        if !ty.has_param() && !ty.has_escaping_bound_vars() && !ty.has_aliases() {
            let env = TypingEnv::fully_monomorphized();
            if let Ok(layout) = tcx.layout_of(env.as_query_input(ty)) {
                o.push(("size", J::Int(layout.size.bytes() as i128)));
                o.push(("align", J::Int(layout.align.abi.bytes() as i128)));
            }
            o.push(("needs_drop", J::Bool(ty.needs_drop(tcx, env))));
            let infcx = tcx.infer_ctxt().build(ty::TypingMode::PostAnalysis);
            let pe = ty::ParamEnv::empty();
            for (name, tr) in [
                ("send", self.send_trait),
                ("sync", self.sync_trait),
                ("copy", self.copy_trait),
            ] {
                if let Some(tr) = tr {
                    let r = infcx.type_implements_trait(tr, [ty], pe);
                    o.push((name, J::Bool(r.must_apply_modulo_regions())));
                }
            }
        } else {
            o.push(("generic", J::Bool(true)));
        }
        J::Obj(o)
    }

    fn place(&mut self, body: &Body<'tcx>, p: &Place<'tcx>) -> J {
        let tcx = self.tcx;
        let mut proj = Vec::new();
        let mut pty = mir::PlaceTy::from_ty(body.local_decls[p.local].ty);
        for elem in p.projection.iter() {
            let j = match elem {
                PlaceElem::Deref => s("deref"),
                PlaceElem::Field(f, fty) => {
                    let mut o = vec![("f", J::Int(f.index() as i128)), ("ty", self.ty(fty))];
                    match pty.ty.kind() {
                        ty::Adt(def, _) => {
                            let vidx = pty.variant_index.unwrap_or(rustc_abi::FIRST_VARIANT);
                            let v = def.variant(vidx);
                            o.push(("adt", s(self.path(def.did()))));
                            if let Some(fd) = v.fields.get(f) {
                                o.push(("name", s(fd.name.as_str())));
                            }
                            if def.is_enum() {
                                o.push(("variant", s(v.name.as_str())));
                            }
                        }
                        ty::Closure(did, _) => {
                            o.push(("closure", s(self.path(*did))));
                        }
                        ty::Tuple(_) => {
                            o.push(("tuple", J::Bool(true)));
                        }
                        _ => {}
                    }
                    J::Obj(o)
                }
                PlaceElem::Index(l) => J::Obj(vec![("index", J::Int(l.index() as i128))]),
                PlaceElem::ConstantIndex { offset, min_length, from_end } => J::Obj(vec![
                    ("cindex", J::Int(offset as i128)),
                    ("min_length", J::Int(min_length as i128)),
                    ("from_end", J::Bool(from_end)),
                ]),
                PlaceElem::Subslice { from, to, from_end } => J::Obj(vec![
                    ("subslice_from", J::Int(from as i128)),
                    ("to", J::Int(to as i128)),
                    ("from_end", J::Bool(from_end)),
                ]),
                PlaceElem::Downcast(name, vidx) => J::Obj(vec![
                    ("downcast", J::Int(vidx.index() as i128)),
                    ("name", opt(name, |n| s(n.as_str()))),
                ]),
                other => J::Obj(vec![("other", s(format!("{:?}", other)))]),
            };
            proj.push(j);
            pty = pty.projection_ty(tcx, elem);
        }
        let fty = self.ty(pty.ty);
        J::Obj(vec![
            ("l", J::Int(p.local.index() as i128)),
            ("p", J::Arr(proj)),
            ("ty", fty),
        ])
    }

    fn konst(&mut self, env: TypingEnv<'tcx>, c: &mir::ConstOperand<'tcx>) -> J {
        let tcx = self.tcx;
        let ty = c.const_.ty();
        let mut o = vec![("ty", self.ty(ty))];
        if let ty::FnDef(did, args) = ty.kind() {
            o.push(("fn", s(self.path(*did))));
            o.push(("args", self.generic_args(args)));
        }
        if let Const::Unevaluated(uv, _) = c.const_ {
            o.push(("uneval", s(self.path(uv.def))));
            if let Some(p) = uv.promoted {
                o.push(("promoted", J::Int(p.index() as i128)));
            }
            o.push(("uargs", self.generic_args(uv.args)));
        }
        let is_scalar_ty = matches!(
            ty.kind(),
            ty::Bool | ty::Char | ty::Int(_) | ty::Uint(_) | ty::Float(_)
        );
        if is_scalar_ty {
            if let Some(si) = c.const_.try_eval_scalar_int(tcx, env) {
                let bits = si.to_bits(si.size());
                o.push(("int", J::Int(bits as i128)));
            }
        }
        o.push(("dbg", s(pr!(format!("{}", c.const_)))));
        J::Obj(o)
    }

    fn operand(&mut self, body: &Body<'tcx>, env: TypingEnv<'tcx>, op: &Operand<'tcx>) -> J {
        match op {
            Operand::Copy(p) => J::Obj(vec![("copy", self.place(body, p))]),
            Operand::Move(p) => J::Obj(vec![("move", self.place(body, p))]),
            Operand::Constant(c) => J::Obj(vec![("const", self.konst(env, c))]),
            #[allow(unreachable_patterns)]
            other => J::Obj(vec![("other_operand", s(format!("{:?}", other)))]),
        }
    }

    fn rvalue(&mut self, body: &Body<'tcx>, env: TypingEnv<'tcx>, rv: &Rvalue<'tcx>) -> J {
        match rv {
            Rvalue::Use(op, ..) => J::Obj(vec![("k", s("use")), ("op", self.operand(body, env, op))]),
            Rvalue::Repeat(op, n) => J::Obj(vec![
                ("k", s("repeat")),
                ("op", self.operand(body, env, op)),
                ("n", opt(n.try_to_target_usize(self.tcx), |x| J::Int(x as i128))),
            ]),
            Rvalue::Ref(_, bk, p) => J::Obj(vec![
                ("k", s("ref")),
                (
                    "bk",
                    s(match bk {
                        BorrowKind::Shared => "shared",
                        BorrowKind::Fake(_) => "fake",
                        BorrowKind::Mut { .. } => "mut",
                    }),
                ),
                ("place", self.place(body, p)),
            ]),
            Rvalue::RawPtr(kind, p) => J::Obj(vec![
                ("k", s("rawptr")),
                ("mut", J::Bool(format!("{:?}", kind).contains("Mut"))),
                ("place", self.place(body, p)),
            ]),
            Rvalue::Cast(ck, op, ty) => J::Obj(vec![
                ("k", s("cast")),
                (
                    "ck",
                    s(match ck {
                        CastKind::Transmute => "Transmute".to_string(),
                        CastKind::PtrToPtr => "PtrToPtr".to_string(),
                        other => format!("{:?}", other),
                    }),
                ),
                ("op", self.operand(body, env, op)),
                ("ty", self.ty(*ty)),
            ]),
            Rvalue::BinaryOp(op, box (l, r)) => J::Obj(vec![
                ("k", s("bin")),
                ("op", s(format!("{:?}", op))),
                ("l", self.operand(body, env, l)),
                ("r", self.operand(body, env, r)),
            ]),
            Rvalue::UnaryOp(op, o) => J::Obj(vec![
                ("k", s("un")),
                ("op", s(format!("{:?}", op))),
                ("o", self.operand(body, env, o)),
            ]),
            Rvalue::Discriminant(p) => {
                J::Obj(vec![("k", s("discr")), ("place", self.place(body, p))])
            }
            Rvalue::Aggregate(box kind, fields) => {
                let mut o = vec![("k", s("aggregate"))];
                match kind {
                    AggregateKind::Adt(did, vidx, args, _, active) => {
                        let def = self.tcx.adt_def(*did);
                        let v = def.variant(*vidx);
                        o.push(("ak", s("adt")));
                        o.push(("adt", s(self.path(*did))));
                        o.push(("variant", s(v.name.as_str())));
                        o.push(("vidx", J::Int(vidx.index() as i128)));
                        o.push(("args", self.generic_args(args)));
                        let names: Vec<J> = match active {
                            Some(fi) => vec![s(v.fields[*fi].name.as_str())],
                            None => v.fields.iter().map(|f| s(f.name.as_str())).collect(),
                        };
                        o.push(("field_names", J::Arr(names)));
                    }
                    AggregateKind::Tuple => o.push(("ak", s("tuple"))),
                    AggregateKind::Array(t) => {
                        o.push(("ak", s("array")));
                        o.push(("elem", self.ty(*t)));
                    }
                    AggregateKind::Closure(did, _) => {
                        o.push(("ak", s("closure")));
                        o.push(("closure", s(self.path(*did))));
                    }
                    other => {
                        o.push(("ak", s("other")));
                        o.push(("dbg", s(format!("{:?}", other))));
                    }
                }
                let fs: Vec<J> = fields.iter().map(|f| self.operand(body, env, f)).collect();
                o.push(("fields", J::Arr(fs)));
                J::Obj(o)
            }
            Rvalue::CopyForDeref(p) => {
                J::Obj(vec![("k", s("copy_for_deref")), ("place", self.place(body, p))])
            }
            other => J::Obj(vec![("k", s("other")), ("dbg", s(format!("{:?}", other)))]),
        }
    }

    fn unwind(&self, u: &UnwindAction) -> J {
        match u {
            UnwindAction::Continue => s("continue"),
            UnwindAction::Unreachable => s("unreachable"),
            UnwindAction::Terminate(_) => s("terminate"),
            UnwindAction::Cleanup(bb) => J::Int(bb.index() as i128),
        }
    }

    fn block(&mut self, body: &Body<'tcx>, env: TypingEnv<'tcx>, bb: &BasicBlockData<'tcx>) -> J {
        let tcx = self.tcx;
        let mut stmts = Vec::new();
        for st in &bb.statements {
            let j = match &st.kind {
                StatementKind::Assign(box (place, rv)) => J::Obj(vec![
                    ("k", s("assign")),
                    ("place", self.place(body, place)),
                    ("rv", self.rvalue(body, env, rv)),
                    ("span", self.span(st.source_info.span)),
                ]),
                StatementKind::SetDiscriminant { place, variant_index } => J::Obj(vec![
                    ("k", s("set_discr")),
                    ("place", self.place(body, place)),
                    ("variant", J::Int(variant_index.index() as i128)),
                    ("span", self.span(st.source_info.span)),
                ]),
                StatementKind::StorageLive(l) => {
                    J::Obj(vec![("k", s("live")), ("l", J::Int(l.index() as i128))])
                }
                StatementKind::StorageDead(l) => {
                    J::Obj(vec![("k", s("dead")), ("l", J::Int(l.index() as i128))])
                }
                StatementKind::Intrinsic(box NonDivergingIntrinsic::CopyNonOverlapping(c)) => {
                    J::Obj(vec![
                        ("k", s("copy_nonoverlapping")),
                        ("src", self.operand(body, env, &c.src)),
                        ("dst", self.operand(body, env, &c.dst)),
                        ("count", self.operand(body, env, &c.count)),
                        ("span", self.span(st.source_info.span)),
                    ])
                }
                StatementKind::Intrinsic(box NonDivergingIntrinsic::Assume(op)) => J::Obj(vec![
                    ("k", s("assume")),
                    ("op", self.operand(body, env, op)),
                ]),
                StatementKind::Nop
                | StatementKind::FakeRead(..)
                | StatementKind::PlaceMention(..)
                | StatementKind::AscribeUserType(..)
                | StatementKind::Coverage(..)
                | StatementKind::ConstEvalCounter => continue,
                other => J::Obj(vec![("k", s("other")), ("dbg", s(format!("{:?}", other)))]),
            };
            stmts.push(j);
        }
        let term = bb.terminator();
        let tspan = self.span(term.source_info.span);
        let t = match &term.kind {
            TerminatorKind::Goto { target } => {
                J::Obj(vec![("k", s("goto")), ("t", J::Int(target.index() as i128))])
            }
            TerminatorKind::SwitchInt { discr, targets } => {
                let ts: Vec<J> = targets
                    .iter()
                    .map(|(v, bb)| J::Arr(vec![J::Int(v as i128), J::Int(bb.index() as i128)]))
                    .collect();
                J::Obj(vec![
                    ("k", s("switch")),
                    ("d", self.operand(body, env, discr)),
                    ("targets", J::Arr(ts)),
                    ("otherwise", J::Int(targets.otherwise().index() as i128)),
                    ("span", tspan),
                ])
            }
            TerminatorKind::UnwindResume => J::Obj(vec![("k", s("resume"))]),
            TerminatorKind::UnwindTerminate(_) => J::Obj(vec![("k", s("abort"))]),
            TerminatorKind::Return => J::Obj(vec![("k", s("return")), ("span", tspan)]),
            TerminatorKind::Unreachable => J::Obj(vec![("k", s("unreachable"))]),
            TerminatorKind::Drop { place, target, unwind, .. } => J::Obj(vec![
                ("k", s("drop")),
                ("place", self.place(body, place)),
                ("t", J::Int(target.index() as i128)),
                ("unwind", self.unwind(unwind)),
                ("span", tspan),
            ]),
            TerminatorKind::Call { func, args, destination, target, unwind, fn_span, .. } => {
                let mut o = vec![("k", s("call"))];
                let mut callee = Vec::new();
                if let Some((did, gargs)) = func.const_fn_def() {
                    callee.push(("path", s(self.path(did))));
                    callee.push(("args", self.generic_args(gargs)));
                    callee.push(("local", J::Bool(did.is_local())));
                    if let Some(tr) = tcx.trait_of_assoc(did) {
                        callee.push(("trait", s(self.path(tr))));
                    }
                    if let Some(imp) = tcx.impl_of_assoc(did) {
                        let self_ty = tcx.type_of(imp).instantiate_identity().skip_norm_wip();
                        callee.push(("impl_self", s(tystr(self_ty))));
                    }
                    // Resolve trait method calls where possible.
                    let norm = tcx.try_normalize_erasing_regions(env, ty::Unnormalized::new_wip(gargs));
                    if let Ok(nargs) = norm {
                        if let Ok(Some(inst)) = ty::Instance::try_resolve(tcx, env, did, nargs) {
                            let rdid = inst.def_id();
                            let mut r = vec![
                                ("path", s(self.path(rdid))),
                                ("args", self.generic_args(inst.args)),
                                ("local", J::Bool(rdid.is_local())),
                                ("kind", s(format!("{:?}", inst.def).split('(').next().unwrap_or("").to_string())),
                            ];
                            if let Some(imp) = tcx.impl_of_assoc(rdid) {
                                let self_ty = tcx.type_of(imp).instantiate_identity().skip_norm_wip();
                                r.push(("impl_self", s(tystr(self_ty))));
                            }
                            callee.push(("resolved", J::Obj(r)));
                        }
                    }
                } else {
                    callee.push(("indirect", self.operand(body, env, func)));
                }
                o.push(("callee", J::Obj(callee)));
                let a: Vec<J> = args.iter().map(|a| self.operand(body, env, &a.node)).collect();
                o.push(("args", J::Arr(a)));
                o.push(("dest", self.place(body, destination)));
                o.push(("t", opt(*target, |t| J::Int(t.index() as i128))));
                o.push(("unwind", self.unwind(unwind)));
                o.push(("span", self.span(*fn_span)));
                J::Obj(o)
            }
            TerminatorKind::Assert { cond, expected, msg, target, unwind } => J::Obj(vec![
                ("k", s("assert")),
                ("cond", self.operand(body, env, cond)),
                ("expected", J::Bool(*expected)),
                ("msg", s(format!("{:?}", msg).chars().take(200).collect::<String>())),
                ("t", J::Int(target.index() as i128)),
                ("unwind", self.unwind(unwind)),
                ("span", tspan),
            ]),
            other => J::Obj(vec![("k", s("other")), ("dbg", s(format!("{:?}", other)))]),
        };
        J::Obj(vec![
            ("cleanup", J::Bool(bb.is_cleanup)),
            ("stmts", J::Arr(stmts)),
            ("term", t),
        ])
    }

    fn body(&mut self, owner: LocalDefId, body: &Body<'tcx>, promoted: Option<usize>) -> J {
        let tcx = self.tcx;
        let did = owner.to_def_id();
        let env = TypingEnv::post_analysis(tcx, did);
        let mut o: Vec<(&'static str, J)> = Vec::new();
        o.push(("path", s(self.path(did))));
        o.push(("def_kind", s(format!("{:?}", tcx.def_kind(did)))));
        o.push(("promoted", opt(promoted, |p| J::Int(p as i128))));
        o.push(("span", self.span(body.span)));
        o.push(("arg_count", J::Int(body.arg_count as i128)));
        let parent = tcx.opt_parent(did);
        o.push(("parent", opt(parent, |p| s(self.path(p)))));
        // module path
        let module = tcx.parent_module_from_def_id(owner);
        o.push(("module", s(self.path(module.to_def_id()))));
        // enclosing impl
        if let Some(imp) = tcx.impl_of_assoc(did) {
            let self_ty = tcx.type_of(imp).instantiate_identity().skip_norm_wip();
            o.push(("impl_self", s(tystr(self_ty))));
            if let Some(tr) = tcx.impl_opt_trait_ref(imp) {
                let tr = tr.instantiate_identity().skip_norm_wip();
                o.push(("impl_trait", s(self.path(tr.def_id))));
                o.push(("impl_trait_ref", s(pr!(format!("{}", tr)))));
            }
        }
        if matches!(tcx.def_kind(did), DefKind::Fn | DefKind::AssocFn) {
            o.push(("vis", s(format!("{:?}", tcx.visibility(did)))));
            o.push(("name", s(tcx.item_name(did).as_str())));
            let sig = tcx.fn_sig(did).instantiate_identity().skip_norm_wip().skip_binder();
            o.push(("unsafe_fn", J::Bool(!sig.safety().is_safe())));
        }
        let mut locals = Vec::new();
        for (_l, decl) in body.local_decls.iter_enumerated() {
            let needs_drop = decl.ty.needs_drop(tcx, env);
            locals.push(J::Obj(vec![
                ("ty", self.ty(decl.ty)),
                ("needs_drop", J::Bool(needs_drop)),
            ]));
        }
        o.push(("locals", J::Arr(locals)));
        let mut dbg = Vec::new();
        for vdi in &body.var_debug_info {
            match &vdi.value {
                VarDebugInfoContents::Place(p) => dbg.push(J::Obj(vec![
                    ("name", s(vdi.name.as_str())),
                    ("place", self.place(body, p)),
                ])),
                VarDebugInfoContents::Const(_) => {}
            }
        }
        o.push(("debug", J::Arr(dbg)));
        let mut blocks = Vec::new();
        for bb in body.basic_blocks.iter() {
            blocks.push(self.block(body, env, bb));
        }
        o.push(("blocks", J::Arr(blocks)));
        J::Obj(o)
    }

    fn adts(&mut self) -> J {
        let tcx = self.tcx;
        let mut v = Vec::new();
        for id in tcx.hir_crate_items(()).definitions() {
            let did = id.to_def_id();
            match tcx.def_kind(did) {
                DefKind::Struct | DefKind::Enum | DefKind::Union => {
                    let def = tcx.adt_def(did);
                    let repr = def.repr();
                    let generics = tcx.generics_of(did);
                    let gens: Vec<J> = generics
                        .own_params
                        .iter()
                        .map(|p| {
                            J::Obj(vec![
                                ("name", s(p.name.as_str())),
                                ("kind", s(format!("{:?}", p.kind).split(|c| c == ' ' || c == '{').next().unwrap_or("").to_string())),
                            ])
                        })
                        .collect();
                    let mut variants = Vec::new();
                    for var in def.variants() {
                        let mut fields = Vec::new();
                        for f in var.fields.iter() {
                            let fty = tcx.type_of(f.did).instantiate_identity().skip_norm_wip();
                            fields.push(J::Obj(vec![
                                ("name", s(f.name.as_str())),
                                ("ty", self.ty(fty)),
                                ("vis", s(format!("{:?}", f.vis))),
                            ]));
                        }
                        variants.push(J::Obj(vec![
                            ("name", s(var.name.as_str())),
                            ("fields", J::Arr(fields)),
                        ]));
                    }
                    let attrs: Vec<J> = tcx
                        .get_all_attrs(did)
                        .iter()
                        .map(|a| s(format!("{:?}", a).chars().take(300).collect::<String>()))
                        .collect();
                    v.push(J::Obj(vec![
                        ("path", s(self.path(did))),
                        ("kind", s(format!("{:?}", tcx.def_kind(did)))),
                        ("span", self.span(tcx.def_span(did))),
                        ("generics", J::Arr(gens)),
                        ("repr_align", opt(repr.align, |a| J::Int(a.bytes() as i128))),
                        ("repr_pack", opt(repr.pack, |a| J::Int(a.bytes() as i128))),
                        ("repr_c", J::Bool(repr.c())),
                        ("repr_transparent", J::Bool(repr.transparent())),
                        ("variants", J::Arr(variants)),
                        ("vis", s(format!("{:?}", tcx.visibility(did)))),
                        ("attrs", J::Arr(attrs)),
                    ]));
                }
                _ => {}
            }
        }
        J::Arr(v)
    }

    fn misc_items(&mut self) -> (J, J, J, J) {
        let tcx = self.tcx;
        let mut impls = Vec::new();
        let mut aliases = Vec::new();
        let mut consts = Vec::new();
        let mut fns = Vec::new();
        for id in tcx.hir_crate_items(()).definitions() {
            let did = id.to_def_id();
            match tcx.def_kind(did) {
                DefKind::Impl { of_trait } => {
                    let self_ty = tcx.type_of(did).instantiate_identity().skip_norm_wip();
                    let mut o = vec![
                        ("path", s(self.path(did))),
                        ("self_ty", self.ty(self_ty)),
                        ("span", self.span(tcx.def_span(did))),
                    ];
                    if of_trait {
                        if let Some(tr) = tcx.impl_opt_trait_ref(did) {
                            let tr = tr.instantiate_identity().skip_norm_wip();
                            o.push(("trait", s(self.path(tr.def_id))));
                            o.push(("trait_ref", s(pr!(format!("{}", tr)))));
                            o.push(("trait_args", self.generic_args(tr.args)));
                        }
                        o.push(("polarity", s(format!("{:?}", tcx.impl_polarity(did)))));
                    }
                    let items: Vec<J> = tcx
                        .associated_item_def_ids(did)
                        .iter()
                        .map(|d| s(self.path(*d)))
                        .collect();
                    o.push(("items", J::Arr(items)));
                    impls.push(J::Obj(o));
                }
                DefKind::TyAlias => {
                    let t = tcx.type_of(did).instantiate_identity().skip_norm_wip();
                    let env = TypingEnv::post_analysis(tcx, did);
                    let nt = tcx
                        .try_normalize_erasing_regions(env, ty::Unnormalized::new_wip(t))
                        .unwrap_or(t);
                    let mut o = vec![("path", s(self.path(did))), ("ty", self.ty(nt))];
                    // Layout of `Adt<CAP>` for a few capacities around the alias's own.
                    if let ty::Adt(def, args) = nt.kind() {
                        if args.len() == 1 {
                            if let Some(c) = args[0].as_const() {
                                if let Some(n) = c.try_to_target_usize(tcx) {
                                    let mut rows = Vec::new();
                                    let fm = TypingEnv::fully_monomorphized();
                                    let base_align = tcx
                                        .layout_of(fm.as_query_input(nt))
                                        .map(|l| l.align.abi.bytes())
                                        .unwrap_or(1);
                                    for cap in [n, n + 1, n + base_align, 2 * n + 3] {
                                        let cargs = tcx.mk_args(&[ty::Const::from_target_usize(tcx, cap).into()]);
                                        let cty = Ty::new_adt(tcx, *def, cargs);
                                        if let Ok(l) = tcx.layout_of(fm.as_query_input(cty)) {
                                            rows.push(J::Arr(vec![
                                                J::Int(cap as i128),
                                                J::Int(l.size.bytes() as i128),
                                                J::Int(l.align.abi.bytes() as i128),
                                            ]));
                                        }
                                    }
                                    o.push(("adt", s(self.path(def.did()))));
                                    o.push(("cap_layouts", J::Arr(rows)));
                                }
                            }
                        }
                    }
                    aliases.push(J::Obj(o));
                }
                DefKind::Const { .. } => {
                    let t = tcx.type_of(did).instantiate_identity().skip_norm_wip();
                    let mut o = vec![("path", s(self.path(did))), ("ty", self.ty(t))];
                    if tcx.generics_of(did).is_empty() {
                        if let Ok(val) = tcx.const_eval_poly(did) {
                            if let Some(si) = val.try_to_scalar_int() {
                                o.push(("int", J::Int(si.to_bits(si.size()) as i128)));
                            }
                        }
                    }
                    consts.push(J::Obj(o));
                }
                DefKind::Fn | DefKind::AssocFn => {
                    let sig = tcx.fn_sig(did).instantiate_identity().skip_norm_wip().skip_binder();
                    let env = TypingEnv::post_analysis(tcx, did);
                    let norm = |t: Ty<'tcx>| {
                        let t = tcx.erase_and_anonymize_regions(t);
                        tcx.try_normalize_erasing_regions(env, ty::Unnormalized::new_wip(t)).unwrap_or(t)
                    };
                    let ins: Vec<J> = sig.inputs().iter().map(|t| self.ty(norm(*t))).collect();
                    let out = self.ty(norm(sig.output()));
                    let generics = tcx.generics_of(did);
                    let gens: Vec<J> =
                        generics.own_params.iter().map(|p| s(p.name.as_str())).collect();
                    fns.push(J::Obj(vec![
                        ("path", s(self.path(did))),
                        ("inputs", J::Arr(ins)),
                        ("output", out),
                        ("generics", J::Arr(gens)),
                        ("parent_generics", J::Int(generics.parent_count as i128)),
                        ("vis", s(format!("{:?}", tcx.visibility(did)))),
                        ("has_body", J::Bool(tcx.is_mir_available(did))),
                        ("span", self.span(tcx.def_span(did))),
                    ]));
                }
                _ => {}
            }
        }
        (J::Arr(impls), J::Arr(aliases), J::Arr(consts), J::Arr(fns))
    }
}

struct Cb;
impl rustc_driver::Callbacks for Cb {
    fn after_analysis<'tcx>(&mut self, _c: &Compiler, tcx: TyCtxt<'tcx>) -> Compilation {
        let out_dir = match std::env::var("MIRDUMP_OUT") {
            Ok(d) => d,
            Err(_) => return Compilation::Continue,
        };
        let crate_name = tcx.crate_name(LOCAL_CRATE).to_string();
        CRATE_NAME.with(|c| *c.borrow_mut() = crate_name.clone());
        if let Ok(list) = std::env::var("MIRDUMP_CRATES") {
            if !list.split(',').any(|c| c == crate_name) {
                return Compilation::Continue;
            }
        }
        if tcx.dcx().has_errors().is_some() {
            return Compilation::Continue;
        }
        let mut cx = Cx {
            tcx,
            types: BTreeMap::new(),
            send_trait: tcx.get_diagnostic_item(rustc_span::sym::Send),
            sync_trait: tcx.lang_items().sync_trait(),
            copy_trait: tcx.lang_items().copy_trait(),
        };
        let mut bodies = Vec::new();
        let mut keys: Vec<LocalDefId> = tcx.mir_keys(()).iter().copied().collect();
        keys.sort_by_key(|k| tcx.def_path_hash(k.to_def_id()));
        for id in keys {
            let did = id.to_def_id();
            let kind = tcx.def_kind(did);
            match kind {
                DefKind::Fn | DefKind::AssocFn | DefKind::Closure => {
                    if tcx.is_coroutine(did) {
                        continue;
                    }
                    let body = tcx.optimized_mir(did);
                    bodies.push(cx.body(id, body, None));
                    let promoted = tcx.promoted_mir(did);
                    for (i, pb) in promoted.iter_enumerated() {
                        bodies.push(cx.body(id, pb, Some(i.index())));
                    }
                }
                DefKind::Const { .. }
                | DefKind::AssocConst { .. }
                | DefKind::AnonConst
                | DefKind::InlineConst
                | DefKind::Static { .. } => {
                    // Generic anon consts (e.g. array lengths mentioning CAP) have MIR too.
                    let body = tcx.mir_for_ctfe(did);
                    bodies.push(cx.body(id, body, None));
                }
                _ => {}
            }
        }
        let adts = cx.adts();
        let (impls, aliases, consts, fns) = cx.misc_items();
        let types = J::Map(std::mem::take(&mut cx.types).into_iter().collect());
        let crate_types: Vec<J> =
            tcx.crate_types().iter().map(|t| s(format!("{:?}", t))).collect();
        let doc = J::Obj(vec![
            ("crate", s(crate_name.clone())),
            ("crate_types", J::Arr(crate_types)),
            ("nonce", s(std::env::var("MIRDUMP_NONCE").unwrap_or_default())),
            ("is_test", J::Bool(tcx.sess.is_test_crate())),
            ("debug_assertions", J::Bool(tcx.sess.opts.debug_assertions)),
            ("bodies", J::Arr(bodies)),
            ("adts", adts),
            ("impls", impls),
            ("aliases", aliases),
            ("consts", consts),
            ("fns", fns),
            ("types", types),
        ]);
        let mut text = String::new();
        doc.write(&mut text);
        let file = format!(
            "{}/{}-{:x}.json",
            out_dir,
            crate_name,
            tcx.stable_crate_id(LOCAL_CRATE).as_u64()
        );
        let tmp = format!("{}.tmp{}", file, std::process::id());
        std::fs::write(&tmp, text).expect("mirdump: write");
        std::fs::rename(&tmp, &file).expect("mirdump: rename");
        Compilation::Continue
    }
}

fn main() {
    let mut args: Vec<String> = std::env::args().collect();
    // RUSTC_WORKSPACE_WRAPPER: argv[1] is the real rustc.
    if args.len() > 1 && (args[1].ends_with("rustc") || args[1].contains("/rustc")) {
        args.remove(1);
    }
    rustc_driver::run_compiler(&args, &mut Cb);
}
