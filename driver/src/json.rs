//! Minimal JSON value + writer (the driver has no Cargo dependencies).
use std::fmt::Write;

#[derive(Clone, Debug)]
pub enum J {
    Null,
    Bool(bool),
    Int(i128),
    Str(String),
    Arr(Vec<J>),
    Obj(Vec<(&'static str, J)>),
    Map(Vec<(String, J)>),
}

pub fn s<T: Into<String>>(t: T) -> J {
    J::Str(t.into())
}

pub fn opt<T>(o: Option<T>, f: impl FnOnce(T) -> J) -> J {
    match o {
        Some(v) => f(v),
        None => J::Null,
    }
}

impl J {
    pub fn write(&self, out: &mut String) {
        match self {
            J::Null => out.push_str("null"),
            J::Bool(b) => out.push_str(if *b { "true" } else { "false" }),
            J::Int(i) => {
                // Python reads arbitrary-size ints; keep them as numbers.
                let _ = write!(out, "{}", i);
            }
            J::Str(st) => write_str(st, out),
            J::Arr(v) => {
                out.push('[');
                for (i, e) in v.iter().enumerate() {
                    if i > 0 {
                        out.push(',');
                    }
                    e.write(out);
                }
                out.push(']');
            }
            J::Obj(v) => {
                out.push('{');
                for (i, (k, e)) in v.iter().enumerate() {
                    if i > 0 {
                        out.push(',');
                    }
                    write_str(k, out);
                    out.push(':');
                    e.write(out);
                }
                out.push('}');
            }
            J::Map(v) => {
                out.push('{');
                for (i, (k, e)) in v.iter().enumerate() {
                    if i > 0 {
                        out.push(',');
                    }
                    write_str(k, out);
                    out.push(':');
                    e.write(out);
                }
                out.push('}');
            }
        }
    }
}

fn write_str(st: &str, out: &mut String) {
    out.push('"');
    for c in st.chars() {
        match c {
            '"' => out.push_str("\\\""),
            '\\' => out.push_str("\\\\"),
            '\n' => out.push_str("\\n"),
            '\r' => out.push_str("\\r"),
            '\t' => out.push_str("\\t"),
            c if (c as u32) < 0x20 => {
                let _ = write!(out, "\\u{:04x}", c as u32);
            }
            c => out.push(c),
        }
    }
    out.push('"');
}
