"""gencheck: rules over truc-generated modules (engine GEN, DESIGN §2.4/§3).

Input: facts of a crate that includes generated modules (the corpus crate or
one of the repository's example crates), the module prefix, and optionally
the sidecar the corpus build script wrote for that module.
Output: list of findings  {prop, rule, module, fn, msg, key}.
"""
import re
from collections import defaultdict, OrderedDict

from mirlib import callee_path, callee_ty_args, op_int, op_place, fmt_span
import mirlib
import geninterp
from geninterp import (Interp, Unanalysable, Violation, Rec, Agg, Enum, Own, Unk, Buf, Const, Ref,
                       MD, Moved, PRIM_PREFIX, NO_UNWIND_EXTERNAL)

REC_RE = re.compile(r'::CappedRecord(\d+)$')


class FieldCell:
    __slots__ = ('name', 'k', 'ty', 'size', 'align', 'needs_drop', 'copy')
    def __init__(self, name, k, ty, info):
        self.name = name
        self.k = k
        self.ty = ty
        self.size = info.get('size')
        self.align = info.get('align')
        self.needs_drop = info.get('needs_drop', True)
        self.copy = info.get('copy', False)
    def triple(self):
        return (self.k, self.ty, self.name)
    def __repr__(self):
        return '%s@%d:%s' % (self.name, self.k, self.ty)


class Finding:
    def __init__(self, props, rule, module, fn, msg, key=None, tag=None):
        self.props = props if isinstance(props, (list, tuple)) else [props]
        self.rule = rule
        self.module = module
        self.fn = fn
        self.msg = msg
        self.key = key
        self.tag = tag
    def to_json(self):
        return {'props': list(self.props), 'rule': self.rule, 'module': self.module, 'fn': self.fn,
                'msg': self.msg, 'key': self.key, 'tag': self.tag}


# which property a low-level interpreter flag belongs to
FLAG_PROPS = {
    'G-LEAK': ['C06'],
    'G-DOUBLE': ['C06', 'C07'],
    'G-STORE': ['C07', 'C04'],
    'G-TYPE': ['C07'],
    'G-OWN': ['C06', 'C07'],
    'G-INV': ['C06', 'C07'],
    'use-after-move': ['C07'],
    'copy-of-owned': ['C06'],
    'overwrite-owned': ['C06'],
}


class Module:
    def __init__(self, crate, prefix, sidecar=None, prim_summary=None, label=None, nested=()):
        self.crate = crate
        self.prefix = prefix
        self.nested = tuple(n for n in nested if n != prefix and n.startswith(prefix + '::'))
        self.sidecar = sidecar
        self.label = label or prefix
        self.tag = sidecar.get('tag') if sidecar else None
        self.findings = []
        self.accesses = []
        self.stats = defaultdict(int)
        self.prim_summary = prim_summary or {}
        self.prims_no_unwind = self.prim_summary.get('no_unwind', True)
        self.bodies = [b for b in crate.bodies if self.in_module(b.path) and (b.module == prefix or b.module is None)]
        self.records = {}     # v -> adt
        self.F = {}           # v -> [FieldCell]
        self.max_size = None
        self.unanalysable = []

    def in_module(self, path):
        p = self.prefix + '::'
        q = path.lstrip('<')
        if not q.startswith(p):
            return False
        for n in self.nested:
            if q.startswith(n + '::'):
                return False
        return True

    def record_variant_of_adt(self, path):
        if not path.startswith(self.prefix + '::'):
            return None
        m = REC_RE.search(path)
        if m and path == '%s::CappedRecord%s' % (self.prefix, m.group(1)):
            return int(m.group(1))
        return None

    def record_variant_of_type(self, ty):
        if ty is None or not ty.startswith(self.prefix + '::CappedRecord'):
            return None
        return self.record_variant_of_adt(geninterp.base_adt(ty))

    def add(self, props, rule, fn, msg, key=None, raw_key=None):
        k = raw_key or '%s|%s|%s' % (rule, self.tag or self.label, key or fn or '')
        self.findings.append(Finding(props, rule, self.label, fn, msg, k, self.tag))

    # ------------------------------------------------------------------
    def discover(self):
        crate = self.crate
        c = crate.consts.get(self.prefix + '::MAX_SIZE')
        if c is None or 'int' not in c:
            self.add(['C02', 'C07'], 'G-ANCHOR', None, 'no evaluated MAX_SIZE constant in module')
            return False
        self.max_size = c['int']
        for path, adt in crate.adts.items():
            v = self.record_variant_of_adt(path)
            if v is not None:
                self.records[v] = adt
        self.uninit_adt = crate.adts.get(self.prefix + '::RecordUninitialized')
        if not self.records:
            self.add(['C04'], 'G-ANCHOR', None, 'no CappedRecordN type in module')
            return False
        vs = sorted(self.records)
        if vs != list(range(len(vs))):
            self.add(['C05'], 'G-ANCHOR', None, 'record variants are not numbered 0..n-1: %s' % vs)
        # field tables from accessor pairs
        for v in vs:
            self.F[v] = self.field_table(v)
        # zero-size fields of one type at one offset are indistinguishable in memory:
        # rules compare field names modulo these groups
        self.canon = {}
        self.group_size = {}
        for v in vs:
            first = {}
            cm, gs = {}, defaultdict(int)
            for c in self.F[v]:
                if c.size == 0:
                    rep = first.setdefault((c.k, c.ty), c.name)
                else:
                    rep = c.name
                cm[c.name] = rep
                gs[rep] += 1
            self.canon[v] = cm
            self.group_size[v] = gs
        return True

    def cn(self, v, name):
        return self.canon.get(v, {}).get(name, name)

    def prim_call(self, body):
        """If the body is a single primitive call on `self.data`, return (prim, k, T)."""
        calls = list(body.calls())
        if len(calls) != 1:
            return None
        bb, t = calls[0]
        p = callee_path(t)
        if not p or not p.startswith(PRIM_PREFIX):
            return None
        k = op_int(t['args'][1]) if len(t['args']) > 1 else None
        tys = callee_ty_args(t)
        return (p[len(PRIM_PREFIX):], k, tys[-1] if tys else None, t)

    def field_table(self, v):
        crate = self.crate
        rec = '%s::CappedRecord%d' % (self.prefix, v)
        pre = rec + '::<CAP>::'
        getters, setters = OrderedDict(), OrderedDict()
        fixed = {'new', 'new_uninit', 'unpack'}
        for b in self.bodies:
            if not b.path.startswith(pre) or b.promoted is not None:
                continue
            name = b.path[len(pre):]
            if '::' in name or name in fixed:
                continue
            pc = self.prim_call(b)
            fn = crate.fns.get(b.path, {})
            if pc is None or pc[0] not in ('get', 'get_mut'):
                self.add(['C04'], 'G-ACC', b.path, 'inherent method of %s is not a single get/get_mut call' % rec)
                continue
            prim, k, T, t = pc
            out = fn.get('output', '')
            want = ('&mut ' if prim == 'get_mut' else '&') + (T or '?')
            if k is None or T is None:
                self.add(['C04', 'C07'], 'G-ACC', b.path, 'accessor with non-constant offset or missing type')
                continue
            if out != want:
                self.add(['C04', 'C07'], 'G-ACC', b.path, 'accessor returns %s but reads a %s' % (out, T))
            # receiver must be self.data
            recv = op_place(t['args'][0])
            self.stats['accessors'] += 1
            if prim == 'get':
                getters[name] = (k, T)
            else:
                setters[name] = (k, T)
        cells = []
        for name, (k, T) in getters.items():
            info = crate.types.get(T) or {}
            if 'size' not in info:
                self.add(['C07'], 'G-ACC', pre + name, 'no layout known for field type %s' % T)
                continue
            m = setters.get(name + '_mut')
            if m is None:
                self.add(['C04'], 'G-ACC', pre + name, 'field `%s` has no mutable accessor' % name, key='%s.%s' % (v, name))
            elif m != (k, T):
                self.add(['C04', 'C07'], 'G-ACC', pre + name + '_mut',
                         'accessor pair of `%s` disagrees: %s() is %s at %d, %s_mut() is %s at %d' % (name, name, T, k, name, m[1], m[0]),
                         key='%s.%s' % (v, name))
            cells.append(FieldCell(name, k, T, info))
        for name in setters:
            if not name.endswith('_mut') or name[:-4] not in getters:
                self.add(['C04'], 'G-ACC', pre + name, 'mutable accessor `%s` has no read accessor' % name)
        return cells

    # ------------------------------------------------------------------
    def sidecar_variant(self, v):
        if not self.sidecar or 'definition' not in self.sidecar:
            return None
        d = self.sidecar['definition']
        data = {x['id']: x for x in d['data']}
        for var in d['variants']:
            if var['id'] == v:
                return [data[i] for i in sorted(var['data'])], [data[i] for i in var['data']]
        return None

    def check_sidecar(self):
        """G-ACC second half: the generated interface is the definition (names, offsets,
        rustc's size/alignment of the field type equal the recorded ones)."""
        if not self.sidecar or 'definition' not in self.sidecar:
            return
        d = self.sidecar['definition']
        nvar = len(d['variants'])
        # G-HISTORY (observation of the build step, C12): the variants of the definition are the
        # bookkeeping of the request history: previous − removed + added, no variant for an idle close
        hist = self.sidecar.get('history') or []
        live, pending_add, pending_rm, expect, first = [], [], [], [], True
        expect_order = []
        for s in hist:
            if s['op'] == 'add':
                pending_add.append(s['name'])
            elif s['op'] == 'remove':
                if s['name'] in pending_add:
                    pending_add.remove(s['name'])
                else:
                    pending_rm.append(s['name'])
            elif s['op'] == 'close':
                if first or pending_add or pending_rm:
                    live = [n for n in live if n not in pending_rm] + pending_add
                    expect.append(sorted(live))
                    expect_order.append(list(live))
                first = False
                pending_add, pending_rm = [], []
        names = {x['id']: x['name'] for x in d['data']}
        got = [sorted(names[i] for i in var['data']) for var in d['variants']]
        self.stats['history_variants'] += len(expect)
        if got != expect:
            k = next((i for i, (a, b_) in enumerate(zip(got, expect)) if a != b_), min(len(got), len(expect)))
            self.add(['C12'], 'G-HISTORY', 'variant %d' % k,
                     'the definition built for this request history has variants %s, the history means %s (previous minus removed plus added; no variant for a close without pending change)' % (got, expect), key='history')
        elif self.sidecar.get('serde'):
            # declaration order (C15: fields are encoded in declaration order): every fragment lists
            # the fields of a variant by datum id, so id order must be the order of the requests
            got_order = [[names[i] for i in sorted(var['data'])] for var in d['variants']]
            for k, (a, b_) in enumerate(zip(got_order, expect_order)):
                if a != b_:
                    self.add(['C15', 'C12'], 'G-HISTORY', 'variant %d' % k,
                             'fields of variant %d are listed as %s, the order of declaration is %s' % (k, a, b_), key='order')
                    break
        ids = [x['id'] for x in d['data']]
        if ids != list(range(len(ids))):
            self.add(['C12'], 'G-HISTORY', None, 'datum ids are not 0..n-1 in creation order: %s' % ids, key='ids')
        if sorted(self.records) != list(range(nvar)):
            self.add(['C05', 'C13'], 'G-ACC', None, 'definition has %d variants, module has records %s' % (nvar, sorted(self.records)))
        for v in sorted(self.records):
            sv = self.sidecar_variant(v)
            if sv is None:
                continue
            by_id, by_addr = sv
            cells = {c.name: c for c in self.F[v]}
            if set(cells) != set(x['name'] for x in by_id):
                self.add(['C04', 'C12'], 'G-ACC', 'CappedRecord%d' % v,
                         'fields of the generated record %s differ from the definition %s' % (sorted(cells), sorted(x['name'] for x in by_id)))
                continue
            for x in by_id:
                c = cells[x['name']]
                if x['offset'] != c.k:
                    self.add(['C04', 'C07'], 'G-ACC', 'CappedRecord%d::%s' % (v, c.name),
                             'accessor offset %d differs from the definition offset %s' % (c.k, x['offset']), key='%d.%s' % (v, c.name))
                if x['size'] != c.size or x['align'] != c.align:
                    # recorded type information differs from rustc's: must not compile (C11)
                    self.add(['C11'], 'G-TYPEINFO', 'CappedRecord%d::%s' % (v, c.name),
                             'definition records size %s / align %s for `%s` but rustc computes %s / %s and the module compiled' % (
                                 x['size'], x['align'], c.ty, c.size, c.align), key='%d.%s' % (v, c.name))
                if x['allow_uninit'] and not c.copy:
                    self.add(['C11'], 'G-TYPEINFO', 'CappedRecord%d::%s' % (v, c.name),
                             'field may stay uninitialised but its type %s is not Copy and the module compiled' % c.ty, key='%d.%s.uninit' % (v, c.name))

    # ------------------------------------------------------------------
    def check_layout(self):
        """G-LAYOUT (C03 part 2) and the record half of G-CAP (C02)."""
        aligns = {}
        for v, adt in sorted(self.records.items()):
            name = 'CappedRecord%d' % v
            gens = adt['generics']
            if len(gens) != 1 or not gens[0]['kind'].startswith('Const') or gens[0]['name'] != 'CAP':
                self.add(['C03'], 'G-LAYOUT', name, 'record type is not generic in exactly `const CAP: usize`: %s' % gens)
            fields = adt['variants'][0]['fields'] if adt['variants'] else []
            if len(fields) != 1 or fields[0]['ty'] != 'truc_runtime::data::RecordMaybeUninit<CAP>':
                self.add(['C03', 'C14'], 'G-LAYOUT', name, 'record type does not consist of exactly one RecordMaybeUninit<CAP> field: %s' % [(f['name'], f['ty']) for f in fields])
            if adt.get('repr_pack') or adt.get('repr_c') or adt.get('repr_transparent'):
                self.add(['C03'], 'G-LAYOUT', name, 'unexpected repr on record type')
            aligns[name] = adt.get('repr_align')
        if self.uninit_adt is not None:
            aligns['RecordUninitialized'] = self.uninit_adt.get('repr_align')
            # the uninitialised record is converted in place to the first variant: same shape, at every capacity
            ugens = self.uninit_adt['generics']
            ufields = self.uninit_adt['variants'][0]['fields'] if self.uninit_adt['variants'] else []
            if len(ugens) != 1 or not ugens[0]['kind'].startswith('Const') or ugens[0]['name'] != 'CAP' \
                    or len(ufields) != 1 or ufields[0]['ty'] != 'truc_runtime::data::RecordMaybeUninit<CAP>':
                self.add(['C03'], 'G-LAYOUT', 'RecordUninitialized', 'RecordUninitialized<const CAP> does not consist of exactly one RecordMaybeUninit<CAP> field (%s): at a capacity other than MAX_SIZE its size differs from the record types\'' % [(f['name'], f['ty']) for f in ufields], key='uninit-shape')
            if self.uninit_adt.get('repr_pack') or self.uninit_adt.get('repr_c') or self.uninit_adt.get('repr_transparent'):
                self.add(['C03'], 'G-LAYOUT', 'RecordUninitialized', 'unexpected repr on RecordUninitialized', key='uninit-repr')
        vals = set(aligns.values())
        if len(vals) != 1 or None in vals:
            self.add(['C03'], 'G-LAYOUT', None, 'record types of one module carry different repr(align): %s' % aligns, key='align')
        self.repr_align = min(a for a in aligns.values() if a) if any(aligns.values()) else 1
        # cross-check through rustc's layout of the RecordN aliases and larger capacities
        sizes = {}
        for v in sorted(self.records):
            al = self.crate.aliases.get('%s::Record%d' % (self.prefix, v))
            if al is None:
                self.add(['C03'], 'G-LAYOUT', 'Record%d' % v, 'no `RecordN` alias for variant')
                continue
            ti = self.crate.types.get(al) or {}
            sizes[v] = (ti.get('size'), ti.get('align'))
            if ti.get('size') is not None and ti['size'] < self.max_size:
                self.add(['C02', 'C07'], 'G-CAP', 'Record%d' % v, 'size_of(Record%d)=%s is smaller than MAX_SIZE=%d' % (v, ti.get('size'), self.max_size))
        if len(set(sizes.values())) > 1:
            self.add(['C03'], 'G-LAYOUT', None, 'rustc computes different (size, align) for the record types of one module: %s' % sizes, key='layout')
        caps = {}
        for v in sorted(self.records):
            cl = self.crate.cap_layouts.get('%s::CappedRecord%d' % (self.prefix, v))
            if cl:
                caps[v] = tuple(tuple(x) for x in cl)
                self.stats['cap_layouts'] += len(cl)
                for cap, size, align in cl:
                    if size < cap or size % align or align != self.repr_align:
                        self.add(['C03', 'C02'], 'G-LAYOUT', 'CappedRecord%d' % v, 'CappedRecord%d<%d> has size %d, align %d (repr(align(%d)))' % (v, cap, size, align, self.repr_align), key='cap.%d' % v)
        if caps and len(set(caps.values())) > 1:
            self.add(['C03'], 'G-LAYOUT', None, 'record types differ in layout for some capacity: %s' % caps, key='cap_layouts')
        self.stats['layout_records'] += len(self.records)

    def check_cap(self):
        """G-CAP over every typed access found while interpreting, and over field tables."""
        seen = set()
        items = []
        for a in self.accesses:
            items.append((a['k'], a['ty'], a['size'], a['align'], a['fn']))
        for v, cells in self.F.items():
            for c in cells:
                items.append((c.k, c.ty, c.size, c.align, 'CappedRecord%d::%s' % (v, c.name)))
        for k, ty, size, align, fn in items:
            key = (k, ty)
            if key in seen:
                continue
            seen.add(key)
            self.stats['cap_accesses'] += 1
            if k + size > self.max_size:
                self.add(['C02', 'C07'], 'G-CAP', fn, 'access of %s at offset %d ends at %d, beyond MAX_SIZE=%d' % (ty, k, k + size, self.max_size), key='cap.%d.%s' % (k, ty))
            if align and k % align != 0:
                self.add(['C02', 'C07'], 'G-CAP', fn, 'access of %s at offset %d is not a multiple of its alignment %d' % (ty, k, align), key='align.%d.%s' % (k, ty))
            if align and self.repr_align % align != 0:
                self.add(['C02', 'C07'], 'G-CAP', fn, 'record types are repr(align(%d)) but hold a %s of alignment %d' % (self.repr_align, ty, align), key='repr.%s' % ty)

    def check_prim_guards(self):
        """G-PRIM (C04 / C07): whatever a storage primitive tests before it touches the buffer lets every access of
        the generated code through — its body (helpers inlined) is evaluated on the literals of each distinct call
        site: size and alignment of the type, offset, capacity = MAX_SIZE.  Only a panic that every decision on
        the way leads to is reported."""
        seen = set()
        for a in self.accesses:
            ps = self.prim_summary.get(a['prim'])
            if not isinstance(ps, dict) or not ps.get('body') or a.get('size') is None:
                continue
            key = (a['prim'], a['size'], a['align'], a['k'])
            if key in seen or a['k'] + a['size'] > self.max_size:
                continue
            seen.add(key)
            self.stats['prim_guard_evals'] += 1
            out, where = mirlib.const_eval_outcome(ps['body'], {2: a['k']}, {'CAP': self.max_size}, (a['size'], a['align'] or 1))
            if out == 'panic':
                self.add(['C04', 'C07'], 'G-PRIM', a['fn'],
                         '%s::<%s>(%d): the primitive refuses this access itself (a value of %d bytes at offset %d of a record of capacity %d lies within the record) — it panics at %s instead of answering [%s]' % (
                             a['prim'], a['ty'], a['k'], a['size'], a['k'], self.max_size, where, a['span']),
                         key='prim-guard.%s.%d.%d.%d' % (a['prim'], a['size'], a['k'], self.max_size))

    def check_dest(self):
        """G-DEST (C07): an access through an alignment-requiring primitive whose receiver
        is a bare RecordMaybeUninit local (alignment 1), not the field of a repr(align) record."""
        seen = set()
        for a in self.accesses:
            ps = self.prim_summary.get(a['prim'])
            if ps is None:
                continue
            self.stats['dest_checks'] += 1
            if ps.get('aligned') and a['align'] > 1 and not a['in_record']:
                key = (a['fn'], a['prim'], a['k'], a['ty'])
                if key in seen:
                    continue
                seen.add(key)
                self.add(['C07'], 'G-DEST', a['fn'],
                         '%s::<%s>(%d) needs a %d-aligned address (the primitive uses an aligned access at %s) but its receiver is a local RecordMaybeUninit, whose alignment is 1 [%s]' % (
                             a['prim'], a['ty'], a['k'], a['align'], ps.get('where'), a['span']),
                         key='dest.%s.%s' % (a['prim'], re.sub(r'^.*::(CappedRecord|Record)', r'\1', a['fn'])))

    def check_disjoint(self):
        """G-DISJ: cells of one variant are pairwise byte-disjoint (size > 0)."""
        for v, cells in self.F.items():
            cs = sorted([c for c in cells if c.size], key=lambda c: c.k)
            for a, b in zip(cs, cs[1:]):
                self.stats['disjoint_pairs'] += 1
                if a.k + a.size > b.k:
                    self.add(['C04', 'C07'] + (['C05'] if v > 0 else []), 'G-DISJ', 'CappedRecord%d' % v,
                             'fields `%s` [%d,%d) and `%s` [%d,%d) of variant %d overlap' % (a.name, a.k, a.k + a.size, b.name, b.k, b.k + b.size, v),
                             key='%d.%s.%s' % (v, a.name, b.name))

    def check_assertions(self):
        """G-ASSERT: every field type has a size and an alignment const assertion."""
        size_asserted, align_asserted = {}, {}
        for b in self.bodies:
            if b.def_kind not in ('Const', 'AssocConst', 'AnonConst', 'InlineConst') and 'Const' not in (b.def_kind or ''):
                continue
            for bb, t in b.calls():
                p = callee_path(t)
                if p in ('core::mem::size_of', 'core::mem::align_of'):
                    tys = callee_ty_args(t)
                    if not tys:
                        continue
                    # the literal it is compared with
                    lit = None
                    for _, _, st in b.statements():
                        if st['k'] == 'assign' and st['rv']['k'] == 'bin' and st['rv']['op'] == 'Eq':
                            for side in ('l', 'r'):
                                iv = op_int(st['rv'][side])
                                if iv is not None:
                                    lit = iv
                    (size_asserted if p.endswith('size_of') else align_asserted)[tys[0]] = lit
        types = {}
        for v, cells in self.F.items():
            for c in cells:
                types[c.ty] = c
        for ty, c in sorted(types.items()):
            self.stats['assert_types'] += 1
            if ty not in size_asserted:
                self.add(['C11'], 'G-ASSERT', None, 'no compile-time size assertion for field type %s' % ty, key='size.%s' % ty)
            elif size_asserted[ty] is not None and size_asserted[ty] != c.size:
                self.add(['C11'], 'G-ASSERT', None, 'size assertion for %s compares with %s, rustc says %s' % (ty, size_asserted[ty], c.size), key='size.%s' % ty)
            if ty not in align_asserted:
                self.add(['C11'], 'G-ASSERT', None, 'no compile-time alignment assertion for field type %s' % ty, key='align.%s' % ty)

    def check_auto_traits(self):
        """G-AUTO (C14)."""
        for v, cells in sorted(self.F.items()):
            al = self.crate.aliases.get('%s::Record%d' % (self.prefix, v))
            ti = self.crate.types.get(al) if al else None
            if not ti or 'send' not in ti:
                self.add(['C14'], 'G-AUTO', 'Record%d' % v, 'no auto-trait facts for the record type')
                continue
            for tr in ('send', 'sync'):
                self.stats['auto_trait_queries'] += 1
                fields_ok = True
                offender = None
                for c in cells:
                    fi = self.crate.types.get(c.ty) or {}
                    if not fi.get(tr, False):
                        fields_ok = False
                        offender = c
                        break
                if ti[tr] and not fields_ok:
                    self.add(['C14'], 'G-AUTO', 'Record%d' % v,
                             'Record%d is %s although its field `%s: %s` is not' % (v, tr.capitalize(), offender.name, offender.ty),
                             raw_key='G-AUTO|%s|%s' % (tr, offender.ty))
                elif not ti[tr] and fields_ok:
                    self.add(['C14'], 'G-AUTO', 'Record%d' % v,
                             'Record%d is not %s although every field type is' % (v, tr.capitalize()), key='%d.%s.converse' % (v, tr))

    # ------------------------------------------------------------------
    # interpretation of the functions

    def classify(self, b):
        """-> (kind, v, extra) for bodies the ownership rules know."""
        d = b.d
        if b.promoted is not None:
            return None
        if b.def_kind == 'Closure':
            return None
        name = d.get('name')
        impl_self = d.get('impl_self')
        tr = d.get('impl_trait')
        v = self.record_variant_of_type(impl_self) if impl_self else None
        if tr is None and v is not None:
            if name in ('new', 'new_uninit', 'unpack'):
                return (name, v, None)
            return ('accessor', v, name)
        if tr == 'core::ops::drop::Drop' and v is not None:
            return ('drop', v, None)
        if tr == 'core::clone::Clone' and v is not None:
            return (name, v, None) if name in ('clone', 'clone_from') else None
        if tr == 'serde_core::ser::Serialize' and v is not None:
            return ('serialize', v, None)
        if tr == 'serde_core::de::Deserialize' and v is not None:
            return ('deserialize', v, None)
        if tr == 'serde_core::de::Visitor' and name == 'visit_seq':
            m = re.search(r'CappedRecord(\d+)<CAP> as serde_core::de::Deserialize', impl_self or '')
            if m:
                return ('visit_seq', int(m.group(1)), None)
        if tr == 'serde_core::de::Visitor':
            return ('visitor_other', None, name)
        if tr == 'core::convert::From':
            ref = d.get('impl_trait_ref', '')
            # source type = the generic argument of From
            fn = self.crate.fns.get(b.path, {})
            src = (fn.get('inputs') or [None])[0]
            if v is not None:
                m = re.match(r'^\((.*CappedRecord(\d+))<CAP>, (.*)\)$', src or '')
                if m and m.group(1).startswith(self.prefix):
                    return ('conv', v, {'from_v': int(m.group(2)), 'in_ty': m.group(3), 'out': False})
                if src == '%s::UnpackedRecord%d' % (self.prefix, v):
                    return ('from_unpacked', v, None)
                if src == '%s::UnpackedUninitRecord%d' % (self.prefix, v):
                    return ('from_unpacked_uninit', v, None)
            m2 = re.match(r'^%s::Record(\d+)AndUnpackedOut<CAP>$' % re.escape(self.prefix), impl_self or '')
            if m2:
                m = re.match(r'^\((.*CappedRecord(\d+))<CAP>, (.*)\)$', src or '')
                if m:
                    return ('conv', int(m2.group(1)), {'from_v': int(m.group(2)), 'in_ty': m.group(3), 'out': True})
            if impl_self and 'UnpackedUninitSafeRecord' in impl_self:
                return ('safe_from', None, None)
        return ('other', None, None)

    def struct_fields(self, path):
        adt = self.crate.adts.get(path)
        if adt is None or not adt['variants']:
            return None
        return [(f['name'], f['ty']) for f in adt['variants'][0]['fields']]

    def run_all(self):
        if not self.discover():
            return
        self.check_sidecar()
        self.check_layout()
        self.check_disjoint()
        self.check_assertions()
        self.check_auto_traits()
        present = defaultdict(list)
        for b in self.bodies:
            cl = self.classify(b)
            if cl is None:
                continue
            kind, v, extra = cl
            present[(kind, v)].append((b, extra))
            if kind in ('accessor', 'safe_from', 'visitor_other'):
                continue
            if kind == 'other' and ('Const' in (b.def_kind or '') or b.def_kind == 'Static'):
                continue
            try:
                self.check_function(b, kind, v, extra)
            except Unanalysable as e:
                self.unanalysable.append((b.key, str(e)))
                extra_props = {'clone': ['C16'], 'clone_from': ['C16'], 'serialize': ['C15'], 'deserialize': ['C15'], 'visit_seq': ['C15'],
                               'conv': ['C05'], 'new': ['C04'], 'new_uninit': ['C04'], 'unpack': ['C04'], 'from_unpacked': ['C04'],
                               'from_unpacked_uninit': ['C04']}.get(kind, [])
                self.add(['C06', 'C07'] + extra_props, 'G-UNANALYSABLE', b.key, 'unanalysable (the generated function does something the ownership analysis has no rule for; fail closed): %s' % e)
            except Violation as e:
                self.add(FLAG_PROPS.get(e.rule, ['C07']), e.rule, b.key, e.msg)
        self.check_presence(present)
        self.check_cap()
        self.check_dest()
        self.check_prim_guards()

    def check_presence(self, present):
        vs = sorted(self.records)
        for v in vs:
            for kind in ('new', 'new_uninit', 'unpack', 'drop', 'from_unpacked', 'from_unpacked_uninit'):
                if not present.get((kind, v)):
                    props = {'drop': ['C06'], 'unpack': ['C04', 'C06']}.get(kind, ['C04'])
                    self.add(props, 'G-PRESENT', 'CappedRecord%d' % v, 'generated record has no `%s`' % kind, key='%d.%s' % (v, kind))
            if v > 0:
                convs = present.get(('conv', v), [])
                forms = set()
                for b, extra in convs:
                    forms.add((extra['out'], 'Uninit' in extra['in_ty'], extra['from_v']))
                want = {(o, u, v - 1) for o in (False, True) for u in (False, True)}
                if forms != want:
                    self.add(['C05'], 'G-PRESENT', 'CappedRecord%d' % v,
                             'expected the four conversion forms from variant %d, found %s' % (v - 1, sorted(forms)), key='%d.conv' % v)

    # -- helpers over outcomes
    def interp(self, b, kind):
        it = Interp(self, b, entry_kind=('drop' if kind == 'drop' else kind))
        outs = it.run()
        self.stats['functions'] += 1
        self.stats['paths'] += len(outs)
        self.stats['kind:' + kind] += 1
        res = []
        for okind, st, ret in outs:
            flags = it.finish(okind, st, ret)
            for rule, msg in flags:
                props = list(FLAG_PROPS.get(rule, ['C07']))
                if kind == 'conv' and rule in ('G-STORE', 'G-INV', 'G-TYPE', 'G-DOUBLE') and 'C05' not in props:
                    props.append('C05')      # a conversion that clobbers / mis-owns a field does not keep or add the right values
                if kind in ('clone', 'clone_from') and 'C16' not in props:
                    props.append('C16')
                if kind in ('visit_seq', 'deserialize', 'serialize') and 'C15' not in props:
                    props.append('C15')      # e.g. a decoded value leaked when a later element is rejected
                self.add(props, rule, b.key, msg, key='%s|%s' % (b.key.replace(self.prefix, ''), re.sub(r'\[.*$', '', msg)[:120]))
            res.append((okind, st, ret))
        return it, res

    def cell_of(self, st, oid, c):
        b = st.objs[oid]
        cell = b.cells.get((c.k, c.ty))
        if cell is None or cell.state != 'owned':
            return None
        return cell

    def origin(self, st, val):
        if isinstance(val, Own):
            return st.toks[val.tok].origin
        return getattr(val, 'origin', None)

    def norm_origin(self, o, u):
        """origins of cells of the source record compare modulo zero-size alias groups of variant u"""
        if u is not None and isinstance(o, tuple) and len(o) >= 2 and o[-2] == 'cell':
            return o[:-1] + (self.cn(u, o[-1]),)
        return o

    def check_record_cells(self, b, st, rec, v, expect, props, what, src_variant=None):
        """expect: name -> (origin or None for 'may be absent (Copy)')"""
        if not isinstance(rec, Rec) or rec.v != v:
            self.add(props, 'G-SHAPE', b.key, '%s: result is not a CappedRecord%d (%r)' % (what, v, rec))
            return
        buf = st.objs[rec.oid]
        # several zero-size fields of one type may share a place: match them as a group
        groups = defaultdict(list)
        for c in self.F[v]:
            groups[(c.k, c.ty)].append(c)
        for c in self.F[v]:
            want = expect.get(c.name, 'missing-expectation')
            cell = self.cell_of(st, rec.oid, c)
            grp = groups[(c.k, c.ty)]
            if len(grp) > 1 and c.size == 0:
                wants = [expect.get(g.name) for g in grp]
                gots = [self.origin(st, x) for x in cell.values()] if cell is not None else []
                nw = [self.norm_origin(w, src_variant) for w in wants if w is not None]
                ng = [self.norm_origin(g, src_variant) for g in gots]
                if sorted(map(repr, nw)) != sorted(map(repr, ng)) and None not in wants:
                    self.add(props, 'G-FIELD', b.key, '%s: zero-size fields %s at %d hold values of origins %s, expected %s' % (
                        what, [g.name for g in grp], c.k, gots, wants), key='%s.%s' % (b.key.replace(self.prefix, ''), c.name))
                continue
            if want is None:
                # allowed to stay uninitialised: its type must be Copy
                if not c.copy:
                    self.add(['C11', 'C04'], 'G-UNINIT', b.key, '%s: field `%s: %s` is left uninitialised but is not Copy' % (what, c.name, c.ty), key='%s.%s' % (b.key.replace(self.prefix, ''), c.name))
                if cell is not None:
                    pass
                continue
            if cell is None:
                self.add(props, 'G-FIELD', b.key, '%s: field `%s` (%s at %d) is not initialised in the result' % (what, c.name, c.ty, c.k), key='%s.%s' % (b.key.replace(self.prefix, ''), c.name))
                continue
            got = self.origin(st, cell.val)
            if callable(want):
                ok = want(got)
            else:
                ok = (got == want) or self.norm_origin(got, src_variant) == self.norm_origin(want, src_variant)
            if not ok:
                self.add(props, 'G-FIELD', b.key, '%s: field `%s` (%s at %d) holds a value of origin %s, expected %s' % (
                    what, c.name, c.ty, c.k, got, want if not callable(want) else want.__doc__), key='%s.%s' % (b.key.replace(self.prefix, ''), c.name))
        known = {(c.k, c.ty) for c in self.F[v]}
        for key, cell in buf.cells.items():
            if key not in known and cell.state == 'owned' and not isinstance(cell.val, Own):
                # plain bytes outside any field: harmless for ownership, but a store at an
                # offset no accessor reads means a field value went to the wrong place
                self.add(props, 'G-FIELD', b.key, '%s: a %s was stored at offset %d, which is not a field of variant %d' % (what, key[1], key[0], v), key='%s.stray.%d' % (b.key.replace(self.prefix, ''), key[0]))

    # -- per kind
    def check_function(self, b, kind, v, extra):
        getattr(self, 'fn_' + kind)(b, v, extra) if hasattr(self, 'fn_' + kind) else self.fn_other(b, v, extra)

    def fn_other(self, b, v, extra):
        self.interp(b, 'other')

    def returns(self, b, res, props):
        rets = [(st, ret) for k, st, ret in res if k == 'return']
        if not rets:
            self.add(props, 'G-SHAPE', b.key, 'function never returns')
        return rets

    def mandatory_fields(self, struct_path):
        fs = self.struct_fields(struct_path)
        return None if fs is None else [n for n, _ in fs]

    def fn_new(self, b, v, extra, uninit=False, arg_origin=('arg', 1), kind='new'):
        it, res = self.interp(b, kind)
        props = ['C04']
        up = '%s::Unpacked%sRecord%d' % (self.prefix, 'Uninit' if uninit else '', v)
        given = self.mandatory_fields(up)
        if given is None:
            self.add(props, 'G-ANCHOR', b.key, 'no struct %s' % up)
            return
        for st, ret in self.returns(b, res, props):
            expect = {}
            for c in self.F[v]:
                expect[c.name] = (arg_origin + (c.name,)) if c.name in given else None
            if not uninit:
                missing = [c.name for c in self.F[v] if c.name not in given]
                if missing:
                    self.add(props, 'G-FIELD', b.key, 'UnpackedRecord%d lacks fields %s' % (v, missing))
            self.check_record_cells(b, st, ret, v, expect, props, kind)
            if set(given) - {c.name for c in self.F[v]}:
                self.add(props, 'G-FIELD', b.key, '%s has fields %s that the record does not store' % (up, sorted(set(given) - {c.name for c in self.F[v]})))

    def fn_new_uninit(self, b, v, extra):
        self.fn_new(b, v, extra, uninit=True, kind='new_uninit')

    def fn_from_unpacked(self, b, v, extra):
        self.fn_new(b, v, extra, uninit=False, kind='from_unpacked')

    def fn_from_unpacked_uninit(self, b, v, extra):
        self.fn_new(b, v, extra, uninit=True, kind='from_unpacked_uninit')

    def fn_unpack(self, b, v, extra):
        it, res = self.interp(b, 'unpack')
        props = ['C04', 'C06']
        for st, ret in self.returns(b, res, props):
            if not isinstance(ret, Agg) or ret.adt != '%s::UnpackedRecord%d' % (self.prefix, v):
                self.add(props, 'G-SHAPE', b.key, 'unpack does not return UnpackedRecord%d' % v)
                continue
            for c in self.F[v]:
                val = ret.fields.get(c.name)
                got = self.origin(st, val) if val is not None else None
                want = ('arg', 1, 'cell', c.name)
                if got != want and not (got and got[:3] == want[:3] and self.cn(v, got[-1]) == self.cn(v, c.name)):
                    self.add(['C04'], 'G-FIELD', b.key, 'unpack: field `%s` of the result has origin %s, expected the record\'s own `%s`' % (c.name, got, c.name), key='unpack.%d.%s' % (v, c.name))
            extra_f = set(ret.fields) - {c.name for c in self.F[v]}
            if extra_f:
                self.add(['C04'], 'G-FIELD', b.key, 'unpack returns fields %s that are not stored' % sorted(extra_f))

    def fn_drop(self, b, v, extra):
        self.interp(b, 'drop')

    def fn_conv(self, b, v, extra):
        it, res = self.interp(b, 'conv')
        props = ['C05']
        u = extra['from_v']
        if u not in self.F:
            self.add(props, 'G-ANCHOR', b.key, 'conversion from unknown variant %s' % u)
            return
        prev = {c.triple(): c for c in self.F[u]}
        cur = {c.triple(): c for c in self.F[v]}
        keep = [c for tr, c in cur.items() if tr in prev]
        plus = [c for tr, c in cur.items() if tr not in prev]
        minus = [c for tr, c in prev.items() if tr not in cur]
        if self.sidecar is not None and self.sidecar_variant(u) and self.sidecar_variant(v):
            # with the definition at hand, identity is the datum id: a datum replaced by another
            # one of the same name, type and place is still removed + added
            idp = {x['name']: x['id'] for x in self.sidecar_variant(u)[0]}
            idc = {x['name']: x['id'] for x in self.sidecar_variant(v)[0]}
            same = {n for n in idp if n in idc and idp[n] == idc[n]}
            moved = [c for c in keep if c.name not in same]
            keep = [c for c in keep if c.name in same]
            plus = plus + moved
            minus = minus + [prev[c.triple()] for c in moved]
            stray = [c for c in plus if c.name in same and not any(p.name == c.name for p in moved)]
        # a field kept by name must be kept in place (C03 seen from the generated code)
        prev_by_name = {c.name: c for c in self.F[u]}
        for c in plus:
            p = prev_by_name.get(c.name)
            if p is not None and self.sidecar is not None:
                ids_prev = {x['name']: x['id'] for x in (self.sidecar_variant(u) or ([], []))[0]}
                ids_cur = {x['name']: x['id'] for x in (self.sidecar_variant(v) or ([], []))[0]}
                if ids_prev.get(c.name) is not None and ids_prev.get(c.name) == ids_cur.get(c.name):
                    self.add(['C03', 'C05'], 'G-MOVED', b.key, 'datum `%s` is %s at %d in variant %d but %s at %d in variant %d' % (c.name, p.ty, p.k, u, c.ty, c.k, v), key='moved.%d.%s' % (v, c.name))
        in_struct = extra['in_ty']
        given = self.mandatory_fields(in_struct)
        if given is None:
            self.add(props, 'G-ANCHOR', b.key, 'no struct %s' % in_struct)
            return
        uninit_form = 'Uninit' in in_struct
        if not uninit_form and set(given) != {c.name for c in plus}:
            self.add(props, 'G-FIELD', b.key, 'input struct %s has fields %s, added fields are %s' % (in_struct, sorted(given), sorted(c.name for c in plus)), key='conv.%d.in' % v)
        if set(given) - {c.name for c in plus}:
            self.add(props, 'G-FIELD', b.key, 'input struct has fields that are not added fields: %s' % sorted(set(given) - {c.name for c in plus}))
        for st, ret in self.returns(b, res, props):
            rec = ret
            if extra['out']:
                if not isinstance(ret, Agg) or not (ret.adt or '').endswith('Record%dAndUnpackedOut' % v):
                    self.add(props, 'G-SHAPE', b.key, 'conversion does not return Record%dAndUnpackedOut' % v)
                    continue
                rec = ret.fields.get('record')
                for c in minus:
                    val = ret.fields.get(c.name)
                    got = self.origin(st, val) if val is not None else None
                    want = ('arg', 1, 0, 'cell', c.name)
                    if got != want and not (got and got[:4] == want[:4] and self.cn(u, got[-1]) == self.cn(u, c.name)):
                        self.add(props, 'G-FIELD', b.key, 'removed field `%s` handed back with origin %s, expected the old record\'s `%s`' % (c.name, got, c.name), key='conv.%d.out.%s' % (v, c.name))
                extra_f = set(ret.fields) - {'record'} - {c.name for c in minus}
                if extra_f:
                    self.add(props, 'G-FIELD', b.key, 'result hands back %s which are not removed fields' % sorted(extra_f))
            expect = {}
            for c in keep:
                expect[c.name] = ('arg', 1, 0, 'cell', c.name)
            for c in plus:
                expect[c.name] = ('arg', 1, 1, c.name) if c.name in given else None
            self.check_record_cells(b, st, rec, v, expect, props, 'conversion %d->%d' % (u, v), src_variant=u)
            # order: reads of the old record precede ManuallyDrop::new, the copy follows it,
            # writes follow the copy; the copy's source sits inside the ManuallyDrop
            ev = st.events
            idx_md = [i for i, e in enumerate(ev) if e[0] == 'manually_drop_new']
            idx_dup = [i for i, e in enumerate(ev) if e[0] == 'dup_buffer']
            idx_rd = [i for i, e in enumerate(ev) if e[0] == 'read']
            idx_wr = [i for i, e in enumerate(ev) if e[0] == 'write']
            if len(idx_dup) == 0 and not keep:
                pass    # nothing is carried over: starting from a fresh buffer is as good as copying the old one
            elif len(idx_dup) != 1:
                self.add(['C05', 'C06'], 'G-CONV', b.key, 'conversion copies the old buffer %d times although fields are carried over' % len(idx_dup))
            else:
                d = ev[idx_dup[0]]
                if d[3] != 'manually_drop':
                    self.add(['C06'], 'G-CONV', b.key, 'old record is bit-copied while it is still going to be dropped (not inside ManuallyDrop)', key='conv.%d.md' % v)
                # A removed value may be read out of the old buffer before the copy or out of the copy
                # afterwards (the interpreter reports a store over bytes whose value was not read yet,
                # G-STORE, and a value left behind, G-INV); reading the *old* buffer after the copy
                # would create a second owner.
                if any(i > idx_dup[0] and ev[i][1] != d[2] for i in idx_rd):
                    self.add(['C05', 'C06'], 'G-CONV', b.key, 'a removed field is read out of the old buffer after that buffer was duplicated', key='conv.%d.order' % v)
                if any(i < idx_dup[0] for i in idx_wr):
                    self.add(['C05'], 'G-CONV', b.key, 'an added field is written before the buffer was duplicated', key='conv.%d.order2' % v)
            reads = [(e[2], e[3]) for e in ev if e[0] == 'read']
            want_reads = sorted((c.k, c.ty) for c in minus)
            if sorted(reads) != want_reads:
                self.add(['C05', 'C06'], 'G-CONV', b.key, 'conversion reads %s out of the old record, removed fields are %s' % (sorted(reads), want_reads), key='conv.%d.reads' % v)

    # -- clone
    def check_clone_cells(self, b, st, oid, v, src_arg, props, what='clone'):
        """Every field of the record held in buffer `oid` is a clone (droppable) or a copy of the
        same-named field of the record behind parameter `src_arg`."""
        def src_name(o):
            # ('call', path, id, (('ref', ...)|('ref_cell', oid,k,T,mut,origin),)) or plain copy origin
            if o and o[0] == 'call' and o[1].endswith('::clone') and len(o[3]) == 1 and o[3][0][0] == 'ref_cell':
                rc = o[3][0]
                return rc[5][-1] if rc[5] else None, (rc[2], rc[3]), rc[5]
            if o and o[0] == 'arg':
                return o[-1], None, o
            return None, None, o
        for c in self.F[v]:
            cell = self.cell_of(st, oid, c)
            if cell is None:
                self.add(props, 'G-CLONE', b.key, '%s: field `%s` is not initialised in the copy' % (what, c.name), key='%s.%d.%s' % (what, v, c.name))
                continue
            o = self.origin(st, cell.val)
            nm, kt, full = src_name(o)
            ok = nm is not None and self.cn(v, nm) == self.cn(v, c.name) and full is not None and full[:3] == ('arg', src_arg, '*') and (kt is None or kt == (c.k, c.ty))
            if not ok:
                self.add(props, 'G-CLONE', b.key, '%s: field `%s` of the copy comes from %s, expected a clone/copy of the source\'s `%s`' % (what, c.name, o, c.name), key='%s.%d.%s' % (what, v, c.name))
            if c.needs_drop and o and o[0] == 'arg':
                self.add(props + ['C06'], 'G-CLONE', b.key, '%s: droppable field `%s` is bit-copied, not cloned' % (what, c.name), key='%s.%d.%s.bitcopy' % (what, v, c.name))

    def fn_clone(self, b, v, extra):
        it, res = self.interp(b, 'clone')
        props = ['C16']
        for st, ret in self.returns(b, res, props):
            if not isinstance(ret, Rec):
                self.add(props, 'G-SHAPE', b.key, 'clone does not return the record type')
                continue
            self.check_clone_cells(b, st, ret.oid, v, 1, props)

    def fn_clone_from(self, b, v, extra):
        it, res = self.interp(b, 'clone_from')
        props = ['C16']
        for st, ret in self.returns(b, res, props):
            done = defaultdict(int)
            oids = {e[1][:2]: e[2] for e in st.events if e[0] == 'arg_rec'}
            self_oid, src_oid = oids.get(('arg', 1)), oids.get(('arg', 2))
            # whole-record formulation: `*self = <a clone of source>` (the old contents are destroyed
            # by the assignment; the interpreter checks that they are, exactly once, on every path)
            hid = getattr(it, 'mut_params', {}).get(1)
            now = st.hidden.get(hid) if hid is not None else None
            if isinstance(now, Rec) and now.oid != self_oid:
                if now.v != v:
                    self.add(props, 'G-SHAPE', b.key, 'clone_from leaves a CappedRecord%s behind `self`' % now.v)
                else:
                    self.check_clone_cells(b, st, now.oid, v, 2, props, what='clone_from')
                continue
            names_at = defaultdict(list)
            for c in self.F[v]:
                names_at[(c.k, c.ty)].append(c.name)
            for e in st.events:
                if e[0] == 'call' and e[1].endswith('::clone_from'):
                    a = e[4]
                    if len(a) == 2 and a[0][0] == 'ref_cell' and a[1][0] == 'ref_cell':
                        dst, src = a[0], a[1]
                        dn = names_at.get((dst[2], dst[3]))
                        sn = names_at.get((src[2], src[3]))
                        if dst[1] == self_oid and src[1] == src_oid and dn and sn and self.cn(v, dn[0]) == self.cn(v, sn[0]) and dst[4]:
                            done[self.cn(v, dn[0])] += 1
                        else:
                            self.add(props, 'G-CLONE', b.key, 'clone_from assigns %s of %s from %s of %s' % (dn, 'self' if dst[1] == self_oid else 'another record', sn, 'source' if src[1] == src_oid else 'another record'), key='clone_from.%d.%s' % (v, dn[0] if dn else dst[2]))
                    else:
                        self.add(props, 'G-CLONE', b.key, 'clone_from call with unexpected operands %s' % (a,))
                    continue
                if e[0] == 'call' and e[1].endswith('::clone_from_DISABLED'):
                    a = e[4]
                    if len(a) == 2 and a[0][0] == 'ref_cell' and a[1][0] == 'ref_cell':
                        dst, src = a[0], a[1]
                        dname = dst[5][-1] if dst[5] else None
                        sname = src[5][-1] if src[5] else None
                        if dst[5] and dst[5][:2] == ('arg', 1) and src[5] and src[5][:2] == ('arg', 2) and dname is not None and sname is not None and self.cn(v, dname) == self.cn(v, sname) and dst[4]:
                            done[self.cn(v, dname)] += 1
                        else:
                            self.add(props, 'G-CLONE', b.key, 'clone_from assigns `%s` of %s from `%s` of %s' % (dname, dst[5][:2] if dst[5] else None, sname, src[5][:2] if src[5] else None), key='clone_from.%d.%s' % (v, dname))
                    else:
                        self.add(props, 'G-CLONE', b.key, 'clone_from call with unexpected operands %s' % (a,))
                elif e[0] == 'assign_cell':
                    o = e[4]
                    # destination cell name
                    dn = [c.name for c in self.F[v] if (c.k, c.ty) == (e[2], e[3])]
                    if e[1] == self_oid and o and o[:3] == ('arg', 2, '*') and dn and self.cn(v, o[-1]) == self.cn(v, dn[0]):
                        done[self.cn(v, dn[0])] += 1
                    else:
                        self.add(props, 'G-CLONE', b.key, 'clone_from stores a value of origin %s into %s' % (o, dn or (e[2], e[3])), key='clone_from.%d.%s' % (v, dn[0] if dn else e[2]))
            for rep, n in self.group_size[v].items():
                if done.get(rep, 0) != n:
                    self.add(props, 'G-CLONE', b.key, 'clone_from assigns field `%s` %d times (expected %d)' % (rep, done.get(rep, 0), n), key='clone_from.%d.%s.count' % (v, rep))

    # -- serde
    def decl_order(self, v):
        sv = self.sidecar_variant(v)
        if sv is not None:
            return [x['name'] for x in sv[0]]
        fs = self.struct_fields('%s::UnpackedRecord%d' % (self.prefix, v))
        return [n for n, _ in fs] if fs else [c.name for c in self.F[v]]

    def fn_serialize(self, b, v, extra):
        it, res = self.interp(b, 'serialize')
        props = ['C15']
        order = self.decl_order(v)
        cells = {c.name: c for c in self.F[v]}
        ok_paths = 0
        for st, ret in self.returns(b, res, props):
            calls = [e for e in st.events if e[0] == 'call']
            names = [e[2] for e in calls]
            if not any(n.endswith('SerializeTuple::end') for n in names):
                continue   # an early error return
            ok_paths += 1
            tup = [e for e in calls if e[2].endswith('Serializer::serialize_tuple')]
            elems = [e for e in calls if e[2].endswith('SerializeTuple::serialize_element')]
            if len(tup) != 1:
                self.add(props, 'G-SERDE', b.key, 'serialize calls serialize_tuple %d times' % len(tup))
                continue
            n = tup[0][4][1]
            if n != ('const', len(order)):
                self.add(props, 'G-SERDE', b.key, 'serialize announces a tuple of %s elements, the variant has %d fields' % (n, len(order)), key='ser.%d.arity' % v)
            got = []
            for e in elems:
                a = e[4][1] if len(e[4]) > 1 else None
                if a and a[0] == 'ref_cell' and a[5] and a[5][:3] == ('arg', 1, '*'):
                    got.append((a[5][-1], a[2], a[3]))
                else:
                    got.append((None, a, None))
            want = [(self.cn(v, nm), cells[nm].k, cells[nm].ty) for nm in order if nm in cells]
            got = [(self.cn(v, g[0]) if g[0] is not None else None, g[1], g[2]) for g in got]
            if got != want:
                self.add(props, 'G-SERDE', b.key, 'serialize emits elements %s, declaration order is %s' % ([g[0] for g in got], [w[0] for w in want]), key='ser.%d.order' % v)
        if ok_paths == 0:
            self.add(props, 'G-SERDE', b.key, 'serialize has no path that ends the tuple', key='ser.%d.end' % v)

    def find_calls(self, o, suffix, acc):
        if isinstance(o, tuple):
            if len(o) >= 3 and o[0] == 'call' and isinstance(o[1], str):
                if o[1].endswith(suffix) or suffix in o[1]:
                    acc.add(o[2])
            for x in o:
                self.find_calls(x, suffix, acc)
        return acc

    def fn_visit_seq(self, b, v, extra):
        it, res = self.interp(b, 'visit_seq')
        props = ['C15']
        order = self.decl_order(v)
        cells = {c.name: c for c in self.F[v]}
        ok_paths = 0
        for st, ret in self.returns(b, res, props):
            if not (isinstance(ret, Enum) and ret.variant == 'Ok'):
                continue
            ok_paths += 1
            rec = ret.payload.get(0)
            calls = [(i, e) for i, e in enumerate(st.events) if e[0] == 'call' and 'SeqAccess::next_element' in e[2]]
            tys = [e[3][-1] if e[3] else None for _, e in calls]
            want_tys = [cells[nm].ty for nm in order if nm in cells]
            if tys != want_tys:
                self.add(props, 'G-SERDE', b.key, 'visitor decodes element types %s, declaration order needs %s' % (tys, want_tys), key='de.%d.types' % v)
                continue
            if not isinstance(rec, Rec):
                self.add(props, 'G-SERDE', b.key, 'visitor does not build the record')
                continue
            for pos, nm in enumerate([n for n in order if n in cells]):
                c = cells[nm]
                cell = self.cell_of(st, rec.oid, c)
                if cell is None:
                    self.add(props, 'G-SERDE', b.key, 'decoded record lacks field `%s`' % nm, key='de.%d.%s' % (v, nm))
                    continue
                ids = self.find_calls(self.origin(st, cell.val), 'SeqAccess::next_element', set())
                which = [k for k, (i, _) in enumerate(calls) if i in ids]
                names_in_order = [n for n in order if n in cells]
                same_group = len(which) == 1 and len(ids) == 1 and self.cn(v, names_in_order[which[0]]) == self.cn(v, nm)
                if ids != {calls[pos][0]} and not same_group:
                    self.add(props, 'G-SERDE', b.key, 'field `%s` (position %d) is built from decoded element(s) %s' % (nm, pos, which), key='de.%d.%s' % (v, nm))
        if ok_paths == 0:
            self.add(props, 'G-SERDE', b.key, 'visitor has no successful path', key='de.%d.ok' % v)
        # error discipline: a size hint different from the arity is rejected before decoding,
        # a missing element is rejected
        saw_len_err = False
        saw_missing = False
        for k, st, ret in res:
            for e in st.events:
                if e[0] == 'call' and e[2].endswith('Error::invalid_length'):
                    saw_len_err = True
                    if e[4] and len(e[4]) > 0:
                        pass
                if e[0] == 'call' and ('ok_or_else' in e[2] or 'missing_field' in e[2]):
                    saw_missing = True
        if not saw_len_err:
            self.add(props, 'G-SERDE', b.key, 'visitor never rejects a wrong length', key='de.%d.len' % v)
        if order and not saw_missing:
            self.add(props, 'G-SERDE', b.key, 'visitor never rejects a missing element', key='de.%d.missing' % v)

    def fn_deserialize(self, b, v, extra):
        it, res = self.interp(b, 'deserialize')
        props = ['C15']
        n = len(self.decl_order(v))
        seen = False
        for k, st, ret in res:
            for e in st.events:
                if e[0] == 'call' and e[2].endswith('Deserializer::deserialize_tuple'):
                    seen = True
                    if e[4][1] != ('const', n):
                        self.add(props, 'G-SERDE', b.key, 'deserialize asks for a tuple of %s, the variant has %d fields' % (e[4][1], n), key='de.%d.arity' % v)
        if not seen:
            self.add(props, 'G-SERDE', b.key, 'deserialize does not call deserialize_tuple', key='de.%d.call' % v)

    def fn_visit_seq_size_check(self):
        pass


def generated_modules(crate):
    """Module paths of a crate that look like truc output."""
    out = []
    for p in crate.consts:
        if p.endswith('::MAX_SIZE'):
            pre = p[:-len('::MAX_SIZE')]
            if (pre + '::CappedRecord0') in crate.adts or (pre + '::RecordUninitialized') in crate.adts:
                out.append(pre)
    return sorted(out)


def check_module(crate, prefix, sidecar=None, prim_summary=None, label=None, nested=()):
    m = Module(crate, prefix, sidecar, prim_summary, label, nested)
    m.run_all()
    return m
