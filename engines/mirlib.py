"""mirlib: helpers over the JSON facts written by the mirdump driver.

Everything here is generic graph / dataflow machinery; rules live in the
engine modules.
"""
import json, os, glob, sys
from collections import defaultdict, deque


# --------------------------------------------------------------------------
# loading

class Crate:
    def __init__(self, doc, path=None):
        self.doc = doc
        self.file = path
        self.name = doc['crate']
        self.types = doc['types']
        self.bodies = [Body(b, self) for b in doc['bodies']]
        self.by_path = defaultdict(list)
        for b in self.bodies:
            self.by_path[b.path].append(b)
        self.adts = {a['path']: a for a in doc['adts']}
        self.impls = doc['impls']
        self.aliases = {a['path']: a['ty'] for a in doc['aliases']}
        self.cap_layouts = {a['adt']: a['cap_layouts'] for a in doc['aliases'] if 'cap_layouts' in a}
        self.consts = {c['path']: c for c in doc['consts']}
        self.fns = {f['path']: f for f in doc['fns']}

    def body(self, path, promoted=None):
        for b in self.by_path.get(path, []):
            if b.promoted == promoted:
                return b
        return None

    def closures_of(self, path):
        """Bodies of closures (transitively) defined inside `path`."""
        pref = path + '::{closure#'
        return [b for b in self.bodies if b.path.startswith(pref) and b.promoted is None]

    def ty(self, key):
        return self.types.get(key)


def load_crates(out_dir, nonce=None):
    crates = []
    for f in sorted(glob.glob(os.path.join(out_dir, '*.json'))):
        with open(f) as fh:
            doc = json.load(fh)
        if nonce is not None and doc.get('nonce') != nonce:
            raise RuntimeError('stale fact file %s (nonce %r != %r)' % (f, doc.get('nonce'), nonce))
        crates.append(Crate(doc, f))
    return crates


# --------------------------------------------------------------------------
# bodies

class Body:
    def __init__(self, d, crate):
        self.d = d
        self.crate = crate
        self.path = d['path']
        self.promoted = d.get('promoted')
        self.blocks = d['blocks']
        self.locals = d['locals']
        self.arg_count = d['arg_count']
        self.module = d.get('module')
        self.def_kind = d.get('def_kind')
        self.names = {}
        for dbg in d.get('debug', []):
            pl = dbg['place']
            if not pl['p']:
                self.names.setdefault(pl['l'], dbg['name'])
        self.debug = d.get('debug', [])
        self._succ = None
        self._pred = None

    @property
    def key(self):
        return self.path if self.promoted is None else '%s::promoted[%d]' % (self.path, self.promoted)

    def span(self):
        return fmt_span(self.d.get('span'))

    def local_ty(self, l):
        return self.locals[l]['ty']

    # -- CFG ---------------------------------------------------------------
    def term(self, bb):
        return self.blocks[bb]['term']

    def successors(self, bb, unwind=True):
        t = self.blocks[bb]['term']
        k = t['k']
        out = []
        if k == 'goto':
            out.append(t['t'])
        elif k == 'switch':
            for _, b in t['targets']:
                out.append(b)
            out.append(t['otherwise'])
        elif k in ('call', 'drop', 'assert'):
            if t.get('t') is not None:
                out.append(t['t'])
            if unwind and isinstance(t.get('unwind'), int):
                out.append(t['unwind'])
        elif k == 'other':
            pass
        return out

    def succ_map(self, unwind=True):
        return {i: self.successors(i, unwind) for i in range(len(self.blocks))}

    def preds(self, unwind=True):
        p = defaultdict(list)
        for i in range(len(self.blocks)):
            for s_ in self.successors(i, unwind):
                p[s_].append(i)
        return p

    def reachable(self, start=0, unwind=True, removed_edges=(), removed_blocks=()):
        removed_edges = set(removed_edges)
        removed_blocks = set(removed_blocks)
        seen = set()
        if start in removed_blocks:
            return seen
        dq = deque([start])
        seen.add(start)
        while dq:
            b = dq.popleft()
            for s_ in self.successors(b, unwind):
                if (b, s_) in removed_edges or s_ in removed_blocks or s_ in seen:
                    continue
                seen.add(s_)
                dq.append(s_)
        return seen

    def dominators(self, unwind=True, entry=0):
        """Returns dom: block -> set of dominators (simple iterative; bodies are small)."""
        n = len(self.blocks)
        reach = self.reachable(entry, unwind)
        preds = self.preds(unwind)
        dom = {b: set(reach) for b in reach}
        dom[entry] = {entry}
        changed = True
        order = sorted(reach)
        while changed:
            changed = False
            for b in order:
                if b == entry:
                    continue
                ps = [p for p in preds[b] if p in reach]
                if ps:
                    new = set.intersection(*[dom[p] for p in ps]) | {b}
                else:
                    new = {b}
                if new != dom[b]:
                    dom[b] = new
                    changed = True
        return dom

    def calls(self):
        for i, b in enumerate(self.blocks):
            t = b['term']
            if t['k'] == 'call':
                yield i, t

    def statements(self):
        for i, b in enumerate(self.blocks):
            for j, st in enumerate(b['stmts']):
                yield i, j, st


def fmt_span(sp):
    if not sp:
        return '?'
    return '%s:%s:%s' % (sp['file'], sp['line'], sp['col'])


# --------------------------------------------------------------------------
# callee helpers

def callee_path(t, resolved=True):
    c = t['callee']
    if resolved and 'resolved' in c:
        return c['resolved']['path']
    return c.get('path')

def callee_decl_path(t):
    return t['callee'].get('path')

def callee_args(t, resolved=False):
    c = t['callee']
    if resolved and 'resolved' in c:
        return c['resolved']['args']
    return c.get('args', [])

def callee_ty_args(t, resolved=False):
    return [a['ty'] for a in callee_args(t, resolved) if 'ty' in a]


# --------------------------------------------------------------------------
# operands / places

def op_place(op):
    if 'copy' in op:
        return op['copy']
    if 'move' in op:
        return op['move']
    return None

def op_local(op):
    """Local index if operand is a bare local (no projections)."""
    p = op_place(op)
    if p is not None and not p['p']:
        return p['l']
    return None

def op_const(op):
    return op.get('const')

def op_int(op):
    c = op.get('const')
    if c is not None and 'int' in c:
        return c['int']
    return None

def place_str(p):
    s_ = '_%d' % p['l']
    for e in p['p']:
        if e == 'deref':
            s_ = '(*%s)' % s_
        elif 'f' in e:
            s_ = '%s.%s' % (s_, e.get('name', e['f']))
        elif 'index' in e:
            s_ = '%s[_%d]' % (s_, e['index'])
        elif 'downcast' in e:
            s_ = '(%s as %s)' % (s_, e.get('name'))
        else:
            s_ = '%s.<%s>' % (s_, list(e.keys())[0])
    return s_

def op_str(op):
    if 'copy' in op:
        return 'copy ' + place_str(op['copy'])
    if 'move' in op:
        return 'move ' + place_str(op['move'])
    if 'const' in op:
        c = op['const']
        if 'fn' in c:
            return 'fn ' + c['fn']
        if 'int' in c:
            return 'const %s' % c['int']
        return 'const ' + c.get('dbg', '?')
    return str(op)

def rv_str(rv):
    k = rv['k']
    if k == 'use':
        return op_str(rv['op'])
    if k == 'ref':
        return '&%s %s' % (rv['bk'], place_str(rv['place']))
    if k == 'rawptr':
        return '&raw %s %s' % ('mut' if rv['mut'] else 'const', place_str(rv['place']))
    if k == 'cast':
        return '%s as %s (%s)' % (op_str(rv['op']), rv['ty'], rv['ck'])
    if k == 'bin':
        return '%s(%s, %s)' % (rv['op'], op_str(rv['l']), op_str(rv['r']))
    if k == 'un':
        return '%s(%s)' % (rv['op'], op_str(rv['o']))
    if k == 'discr':
        return 'discriminant(%s)' % place_str(rv['place'])
    if k == 'aggregate':
        nm = rv.get('adt') or rv.get('closure') or rv['ak']
        if rv.get('variant') and rv.get('ak') == 'adt':
            nm += '::' + rv['variant']
        return '%s{%s}' % (nm, ', '.join(op_str(f) for f in rv['fields']))
    if k == 'copy_for_deref':
        return 'deref_copy ' + place_str(rv['place'])
    return rv.get('dbg', k)

def dump_body(b, out=sys.stdout):
    w = out.write
    w('fn %s  [%s]  args=%d\n' % (b.key, b.span(), b.arg_count))
    for i, l in enumerate(b.locals):
        w('    let _%d: %s%s%s\n' % (i, l['ty'], '  // ' + b.names[i] if i in b.names else '',
                                      ' [needs_drop]' if l['needs_drop'] else ''))
    for dbg in b.debug:
        if dbg['place']['p']:
            w('    debug %s => %s\n' % (dbg['name'], place_str(dbg['place'])))
    for i, blk in enumerate(b.blocks):
        w('  bb%d%s:\n' % (i, ' (cleanup)' if blk['cleanup'] else ''))
        for st in blk['stmts']:
            k = st['k']
            if k == 'assign':
                w('    %s = %s\n' % (place_str(st['place']), rv_str(st['rv'])))
            elif k in ('live', 'dead'):
                continue
            elif k == 'copy_nonoverlapping':
                w('    copy_nonoverlapping(%s, %s, %s)\n' % (op_str(st['src']), op_str(st['dst']), op_str(st['count'])))
            elif k == 'set_discr':
                w('    discriminant(%s) = %s\n' % (place_str(st['place']), st['variant']))
            else:
                w('    %s\n' % (st.get('dbg') or k))
        t = blk['term']
        k = t['k']
        if k == 'call':
            c = t['callee']
            nm = c.get('path') or ('indirect ' + op_str(c['indirect']))
            ga = ', '.join(a.get('ty') or a.get('const') for a in c.get('args', []))
            res = ''
            if 'resolved' in c and c['resolved']['path'] != c.get('path'):
                res = '  [=> %s]' % c['resolved']['path']
            w('    %s = %s::<%s>(%s) -> %s unwind %s%s   @%s\n' % (
                place_str(t['dest']), nm, ga, ', '.join(op_str(a) for a in t['args']),
                'bb%s' % t['t'] if t['t'] is not None else '!', t['unwind'], res, fmt_span(t['span'])))
        elif k == 'switch':
            w('    switch %s %s otherwise bb%d\n' % (op_str(t['d']), ['%d=>bb%d' % (v, bb) for v, bb in t['targets']], t['otherwise']))
        elif k == 'drop':
            w('    drop(%s) -> bb%d unwind %s\n' % (place_str(t['place']), t['t'], t['unwind']))
        elif k == 'assert':
            w('    assert(%s == %s, %s) -> bb%d unwind %s\n' % (op_str(t['cond']), t['expected'], t['msg'][:60], t['t'], t['unwind']))
        elif k == 'goto':
            w('    goto bb%d\n' % t['t'])
        else:
            w('    %s\n' % (t.get('dbg') or k))


# --------------------------------------------------------------------------
# definitions / simple backward tracing

def local_defs(body):
    """local -> list of ('stmt', bb, idx, stmt) | ('call', bb, term) definitions of the bare local."""
    defs = defaultdict(list)
    for bb, blk in enumerate(body.blocks):
        for i, st in enumerate(blk['stmts']):
            if st['k'] == 'assign' and not st['place']['p']:
                defs[st['place']['l']].append(('stmt', bb, i, st))
        t = blk['term']
        if t['k'] == 'call' and not t['dest']['p']:
            defs[t['dest']['l']].append(('call', bb, t))
    return defs


def single_def(defs, l):
    d = defs.get(l, [])
    return d[0] if len(d) == 1 else None


def trace_value(body, defs, op, depth=0, through_refs=True):
    """Follow an operand backwards through moves/copies/reborrows/pointer casts to its
    source. Returns a list of steps (outermost last) ending in a terminal:
      ('param', l) | ('call', term) | ('place', place) | ('const', c) | ('multi', l) | ('rv', rv)
    Intermediate steps: ('cast', ck, ty) | ('ref', bk) | ('rawptr', mut) | ('deref',)
    """
    steps = []
    cur = op
    for _ in range(64):
        if 'const' in cur:
            steps.append(('const', cur['const']))
            return steps
        p = op_place(cur)
        if p['p']:
            steps.append(('place', p))
            return steps
        l = p['l']
        if 1 <= l <= body.arg_count:
            steps.append(('param', l))
            return steps
        d = single_def(defs, l)
        if d is None:
            steps.append(('multi', l))
            return steps
        if d[0] == 'call':
            steps.append(('call', d[2]))
            return steps
        rv = d[3]['rv']
        k = rv['k']
        if k == 'use':
            cur = rv['op']
            continue
        if k == 'cast':
            steps.append(('cast', rv['ck'], rv['ty']))
            cur = rv['op']
            continue
        if k in ('ref', 'rawptr') and through_refs:
            pl = rv['place']
            # reborrow `&(*_x)` / `&raw (*_x)`: continue with _x
            if pl['p'] == ['deref']:
                steps.append(('reborrow', rv.get('bk') or ('mut' if rv.get('mut') else 'const')))
                cur = {'copy': {'l': pl['l'], 'p': [], 'ty': None}}
                continue
            steps.append(('ref', rv.get('bk') or ('rawmut' if rv.get('mut') else 'rawconst'), pl))
            return steps
        if k == 'copy_for_deref':
            pl = rv['place']
            if not pl['p']:
                cur = {'copy': pl}
                continue
            steps.append(('place', pl))
            return steps
        steps.append(('rv', rv))
        return steps
    steps.append(('deep',))
    return steps
