"""mirlib: helpers over the JSON facts written by the mirdump driver.

Everything here is generic graph / dataflow machinery; rules live in the
engine modules.
"""
import json, os, glob, sys
from collections import defaultdict, deque


# --------------------------------------------------------------------------
# loading

class Crate:
    def __init__(self, doc, path=None):
        self.doc = doc
        self.file = path
        self.name = doc['crate']
        self.types = doc['types']
        self.bodies = [Body(b, self) for b in doc['bodies']]
        self.by_path = defaultdict(list)
        for b in self.bodies:
            self.by_path[b.path].append(b)
        self.adts = {a['path']: a for a in doc['adts']}
        self.impls = doc['impls']
        self.aliases = {a['path']: a['ty'] for a in doc['aliases']}
        self.cap_layouts = {a['adt']: a['cap_layouts'] for a in doc['aliases'] if 'cap_layouts' in a}
        self.consts = {c['path']: c for c in doc['consts']}
        self.fns = {f['path']: f for f in doc['fns']}

    def body(self, path, promoted=None):
        for b in self.by_path.get(path, []):
            if b.promoted == promoted:
                return b
        return None

    def lookup(self, path, promoted=None):
        return self.body(path, promoted)

    def closures_of(self, path):
        """Bodies of closures (transitively) defined inside `path`."""
        pref = path + '::{closure#'
        return [b for b in self.bodies if b.path.startswith(pref) and b.promoted is None]

    def ty(self, key):
        return self.types.get(key)


def load_crates(out_dir, nonce=None):
    crates = []
    for f in sorted(glob.glob(os.path.join(out_dir, '*.json'))):
        with open(f) as fh:
            doc = json.load(fh)
        if nonce is not None and doc.get('nonce') != nonce:
            raise RuntimeError('stale fact file %s (nonce %r != %r)' % (f, doc.get('nonce'), nonce))
        crates.append(Crate(doc, f))
    return crates


# --------------------------------------------------------------------------
# bodies

class Body:
    def __init__(self, d, crate):
        self.d = d
        self.crate = crate
        self.path = d['path']
        self.promoted = d.get('promoted')
        self.blocks = d['blocks']
        self.locals = d['locals']
        self.arg_count = d['arg_count']
        self.module = d.get('module')
        self.def_kind = d.get('def_kind')
        self.names = {}
        for dbg in d.get('debug', []):
            pl = dbg['place']
            if not pl['p']:
                self.names.setdefault(pl['l'], dbg['name'])
        self.debug = d.get('debug', [])
        self._succ = None
        self._pred = None

    @property
    def key(self):
        return self.path if self.promoted is None else '%s::promoted[%d]' % (self.path, self.promoted)

    def span(self):
        return fmt_span(self.d.get('span'))

    def local_ty(self, l):
        return self.locals[l]['ty']

    # -- CFG ---------------------------------------------------------------
    def term(self, bb):
        return self.blocks[bb]['term']

    def successors(self, bb, unwind=True):
        t = self.blocks[bb]['term']
        k = t['k']
        out = []
        if k == 'goto':
            out.append(t['t'])
        elif k == 'switch':
            for _, b in t['targets']:
                out.append(b)
            out.append(t['otherwise'])
        elif k in ('call', 'drop', 'assert'):
            if t.get('t') is not None:
                out.append(t['t'])
            if unwind and isinstance(t.get('unwind'), int):
                out.append(t['unwind'])
        elif k == 'other':
            pass
        return out

    def succ_map(self, unwind=True):
        return {i: self.successors(i, unwind) for i in range(len(self.blocks))}

    def preds(self, unwind=True):
        p = defaultdict(list)
        for i in range(len(self.blocks)):
            for s_ in self.successors(i, unwind):
                p[s_].append(i)
        return p

    def reachable(self, start=0, unwind=True, removed_edges=(), removed_blocks=()):
        removed_edges = set(removed_edges)
        removed_blocks = set(removed_blocks)
        seen = set()
        if start in removed_blocks:
            return seen
        dq = deque([start])
        seen.add(start)
        while dq:
            b = dq.popleft()
            for s_ in self.successors(b, unwind):
                if (b, s_) in removed_edges or s_ in removed_blocks or s_ in seen:
                    continue
                seen.add(s_)
                dq.append(s_)
        return seen

    def dominators(self, unwind=True, entry=0):
        """Returns dom: block -> set of dominators (simple iterative; bodies are small)."""
        n = len(self.blocks)
        reach = self.reachable(entry, unwind)
        preds = self.preds(unwind)
        dom = {b: set(reach) for b in reach}
        dom[entry] = {entry}
        changed = True
        order = sorted(reach)
        while changed:
            changed = False
            for b in order:
                if b == entry:
                    continue
                ps = [p for p in preds[b] if p in reach]
                if ps:
                    new = set.intersection(*[dom[p] for p in ps]) | {b}
                else:
                    new = {b}
                if new != dom[b]:
                    dom[b] = new
                    changed = True
        return dom

    def calls(self):
        for i, b in enumerate(self.blocks):
            t = b['term']
            if t['k'] == 'call':
                yield i, t

    def statements(self):
        for i, b in enumerate(self.blocks):
            for j, st in enumerate(b['stmts']):
                yield i, j, st


def fmt_span(sp):
    if not sp:
        return '?'
    return '%s:%s:%s' % (sp['file'], sp['line'], sp['col'])


# --------------------------------------------------------------------------
# callee helpers

def callee_path(t, resolved=True):
    c = t['callee']
    if resolved and 'resolved' in c:
        return c['resolved']['path']
    return c.get('path')

def callee_decl_path(t):
    return t['callee'].get('path')

def callee_args(t, resolved=False):
    c = t['callee']
    if resolved and 'resolved' in c:
        return c['resolved']['args']
    return c.get('args', [])

def callee_ty_args(t, resolved=False):
    return [a['ty'] for a in callee_args(t, resolved) if 'ty' in a]


# --------------------------------------------------------------------------
# operands / places

def op_place(op):
    if 'copy' in op:
        return op['copy']
    if 'move' in op:
        return op['move']
    return None

def op_local(op):
    """Local index if operand is a bare local (no projections)."""
    p = op_place(op)
    if p is not None and not p['p']:
        return p['l']
    return None

def op_const(op):
    return op.get('const')

def op_int(op):
    c = op.get('const')
    if c is not None and 'int' in c:
        return c['int']
    return None

def place_str(p):
    s_ = '_%d' % p['l']
    for e in p['p']:
        if e == 'deref':
            s_ = '(*%s)' % s_
        elif 'f' in e:
            s_ = '%s.%s' % (s_, e.get('name', e['f']))
        elif 'index' in e:
            s_ = '%s[_%d]' % (s_, e['index'])
        elif 'downcast' in e:
            s_ = '(%s as %s)' % (s_, e.get('name'))
        else:
            s_ = '%s.<%s>' % (s_, list(e.keys())[0])
    return s_

def op_str(op):
    if 'copy' in op:
        return 'copy ' + place_str(op['copy'])
    if 'move' in op:
        return 'move ' + place_str(op['move'])
    if 'const' in op:
        c = op['const']
        if 'fn' in c:
            return 'fn ' + c['fn']
        if 'int' in c:
            return 'const %s' % c['int']
        return 'const ' + c.get('dbg', '?')
    return str(op)

def rv_str(rv):
    k = rv['k']
    if k == 'use':
        return op_str(rv['op'])
    if k == 'ref':
        return '&%s %s' % (rv['bk'], place_str(rv['place']))
    if k == 'rawptr':
        return '&raw %s %s' % ('mut' if rv['mut'] else 'const', place_str(rv['place']))
    if k == 'cast':
        return '%s as %s (%s)' % (op_str(rv['op']), rv['ty'], rv['ck'])
    if k == 'bin':
        return '%s(%s, %s)' % (rv['op'], op_str(rv['l']), op_str(rv['r']))
    if k == 'un':
        return '%s(%s)' % (rv['op'], op_str(rv['o']))
    if k == 'discr':
        return 'discriminant(%s)' % place_str(rv['place'])
    if k == 'aggregate':
        nm = rv.get('adt') or rv.get('closure') or rv['ak']
        if rv.get('variant') and rv.get('ak') == 'adt':
            nm += '::' + rv['variant']
        return '%s{%s}' % (nm, ', '.join(op_str(f) for f in rv['fields']))
    if k == 'copy_for_deref':
        return 'deref_copy ' + place_str(rv['place'])
    return rv.get('dbg', k)

def dump_body(b, out=sys.stdout):
    w = out.write
    w('fn %s  [%s]  args=%d\n' % (b.key, b.span(), b.arg_count))
    for i, l in enumerate(b.locals):
        w('    let _%d: %s%s%s\n' % (i, l['ty'], '  // ' + b.names[i] if i in b.names else '',
                                      ' [needs_drop]' if l['needs_drop'] else ''))
    for dbg in b.debug:
        if dbg['place']['p']:
            w('    debug %s => %s\n' % (dbg['name'], place_str(dbg['place'])))
    for i, blk in enumerate(b.blocks):
        w('  bb%d%s:\n' % (i, ' (cleanup)' if blk['cleanup'] else ''))
        for st in blk['stmts']:
            k = st['k']
            if k == 'assign':
                w('    %s = %s\n' % (place_str(st['place']), rv_str(st['rv'])))
            elif k in ('live', 'dead'):
                continue
            elif k == 'copy_nonoverlapping':
                w('    copy_nonoverlapping(%s, %s, %s)\n' % (op_str(st['src']), op_str(st['dst']), op_str(st['count'])))
            elif k == 'set_discr':
                w('    discriminant(%s) = %s\n' % (place_str(st['place']), st['variant']))
            else:
                w('    %s\n' % (st.get('dbg') or k))
        t = blk['term']
        k = t['k']
        if k == 'call':
            c = t['callee']
            nm = c.get('path') or ('indirect ' + op_str(c['indirect']))
            ga = ', '.join(a.get('ty') or a.get('const') for a in c.get('args', []))
            res = ''
            if 'resolved' in c and c['resolved']['path'] != c.get('path'):
                res = '  [=> %s]' % c['resolved']['path']
            w('    %s = %s::<%s>(%s) -> %s unwind %s%s   @%s\n' % (
                place_str(t['dest']), nm, ga, ', '.join(op_str(a) for a in t['args']),
                'bb%s' % t['t'] if t['t'] is not None else '!', t['unwind'], res, fmt_span(t['span'])))
        elif k == 'switch':
            w('    switch %s %s otherwise bb%d\n' % (op_str(t['d']), ['%d=>bb%d' % (v, bb) for v, bb in t['targets']], t['otherwise']))
        elif k == 'drop':
            w('    drop(%s) -> bb%d unwind %s\n' % (place_str(t['place']), t['t'], t['unwind']))
        elif k == 'assert':
            w('    assert(%s == %s, %s) -> bb%d unwind %s\n' % (op_str(t['cond']), t['expected'], t['msg'][:60], t['t'], t['unwind']))
        elif k == 'goto':
            w('    goto bb%d\n' % t['t'])
        else:
            w('    %s\n' % (t.get('dbg') or k))


# --------------------------------------------------------------------------
# definitions / simple backward tracing

def local_defs(body):
    """local -> list of ('stmt', bb, idx, stmt) | ('call', bb, term) definitions of the bare local."""
    defs = defaultdict(list)
    for bb, blk in enumerate(body.blocks):
        for i, st in enumerate(blk['stmts']):
            if st['k'] == 'assign' and not st['place']['p']:
                defs[st['place']['l']].append(('stmt', bb, i, st))
        t = blk['term']
        if t['k'] == 'call' and not t['dest']['p']:
            defs[t['dest']['l']].append(('call', bb, t))
    return defs


def single_def(defs, l):
    d = defs.get(l, [])
    return d[0] if len(d) == 1 else None


def trace_value(body, defs, op, depth=0, through_refs=True):
    """Follow an operand backwards through moves/copies/reborrows/pointer casts to its
    source. Returns a list of steps (outermost last) ending in a terminal:
      ('param', l) | ('call', term) | ('place', place) | ('const', c) | ('multi', l) | ('rv', rv)
    Intermediate steps: ('cast', ck, ty) | ('ref', bk) | ('rawptr', mut) | ('deref',)
    """
    steps = []
    cur = op
    for _ in range(64):
        if 'const' in cur:
            steps.append(('const', cur['const']))
            return steps
        p = op_place(cur)
        if p['p']:
            steps.append(('place', p))
            return steps
        l = p['l']
        if 1 <= l <= body.arg_count:
            steps.append(('param', l))
            return steps
        d = single_def(defs, l)
        if d is None:
            steps.append(('multi', l))
            return steps
        if d[0] == 'call':
            steps.append(('call', d[2]))
            return steps
        rv = d[3]['rv']
        k = rv['k']
        if k == 'use':
            cur = rv['op']
            continue
        if k == 'cast':
            steps.append(('cast', rv['ck'], rv['ty']))
            cur = rv['op']
            continue
        if k in ('ref', 'rawptr') and through_refs:
            pl = rv['place']
            # reborrow `&(*_x)` / `&raw (*_x)`: continue with _x
            if pl['p'] == ['deref']:
                steps.append(('reborrow', rv.get('bk') or ('mut' if rv.get('mut') else 'const')))
                cur = {'copy': {'l': pl['l'], 'p': [], 'ty': None}}
                continue
            steps.append(('ref', rv.get('bk') or ('rawmut' if rv.get('mut') else 'rawconst'), pl))
            return steps
        if k == 'copy_for_deref':
            pl = rv['place']
            if not pl['p']:
                cur = {'copy': pl}
                continue
            steps.append(('place', pl))
            return steps
        steps.append(('rv', rv))
        return steps
    steps.append(('deep',))
    return steps


# --------------------------------------------------------------------------
# inlining of private helpers (so that rules anchored on an entry point survive the extraction of
# a helper function, and see through helpers that already exist)

import copy as _copy
import re as _re


def _shift(x, loff, boff, subst):
    """Deep copy of a MIR JSON fragment with locals shifted by loff (or mapped through the dict
    loff), block numbers by boff, and type-parameter names substituted."""
    lmap = (lambda l: loff.get(l, l)) if isinstance(loff, dict) else (lambda l: l + loff)
    def ty(s):
        if not subst or not isinstance(s, str):
            return s
        return subst_ty(s, subst)
    def go(v, key=None):
        if isinstance(v, dict):
            out = {}
            is_place = 'l' in v and isinstance(v['l'], int) and ('p' in v or v.get('k') in ('live', 'dead'))
            for k, x in v.items():
                if k == 'l' and is_place:
                    out[k] = lmap(x)
                elif k == 'index' and isinstance(x, int):
                    out[k] = lmap(x)
                elif k in ('ty', 'impl_self') and isinstance(x, str):
                    out[k] = ty(x)
                else:
                    out[k] = go(x, k)
            return out
        if isinstance(v, list):
            return [go(x, key) for x in v]
        return v
    return go(x)


def subst_ty(s, subst):
    def rep(m):
        return subst.get(m.group(0), m.group(0))
    return _re.sub(r'(?<![A-Za-z0-9_:])([A-Z][A-Za-z0-9_]*)(?![A-Za-z0-9_:])', rep, s)


def _retarget(t, boff):
    t = dict(t)
    k = t['k']
    if k == 'goto':
        t['t'] += boff
    elif k == 'switch':
        t['targets'] = [[v, bb + boff] for v, bb in t['targets']]
        t['otherwise'] += boff
    elif k in ('call', 'drop', 'assert'):
        if t.get('t') is not None:
            t['t'] += boff
        if isinstance(t.get('unwind'), int):
            t['unwind'] += boff
    return t


def inline_body(crate, body, want, max_rounds=4):
    """Returns a Body in which calls to callees accepted by `want(path, callee_body)` are replaced by
    the callee's blocks (arguments assigned to fresh locals, `return` replaced by an assignment of the
    destination and a jump, unwinding joined with the call's unwind edge).  `.inlined` lists the paths."""
    d = dict(body.d)
    blocks = [dict(b, stmts=list(b['stmts'])) for b in body.d['blocks']]
    locals_ = list(body.d['locals'])
    inlined = []
    stack_guard = {body.path}
    for _ in range(max_rounds):
        changed = False
        for bb in range(len(blocks)):
            t = blocks[bb]['term']
            if t['k'] != 'call' or 'callee' not in t or t['callee'].get('indirect'):
                continue
            p = callee_path(t)
            cb = crate.body(p) if p else None
            if cb is None or p in stack_guard or not want(p, cb):
                continue
            if cb.def_kind == 'Closure':
                continue
            if len(t['args']) != cb.arg_count:
                continue
            fn = crate.fns.get(p) or {}
            gens = fn.get('generics') or []
            targs = [a.get('ty') for a in callee_args(t, True)] if 'resolved' in t['callee'] else [a.get('ty') for a in callee_args(t)]
            subst = {}
            if gens and len(gens) == len(targs):
                subst = {g: a for g, a in zip(gens, targs) if a and a != g}
            loff = len(locals_)
            boff = len(blocks)
            for l in cb.d['locals']:
                locals_.append(dict(l, ty=subst_ty(l['ty'], subst) if subst else l['ty']))
            # arguments: a parameter that the callee never re-assigns and that receives a plain local
            # (or a reborrow of a reference held in a local) becomes an alias of that local
            assigned = set()
            for cblk in cb.d['blocks']:
                for st in cblk['stmts']:
                    if st['k'] == 'assign' and not st['place']['p']:
                        assigned.add(st['place']['l'])
                ct = cblk['term']
                if ct['k'] == 'call' and not ct['dest']['p']:
                    assigned.add(ct['dest']['l'])
            def defs_of(l):
                out = []
                for xb in blocks:
                    for st in xb['stmts']:
                        if st['k'] == 'assign' and not st['place']['p'] and st['place']['l'] == l:
                            out.append(st['rv'])
                    xt = xb['term']
                    if xt['k'] == 'call' and not xt['dest']['p'] and xt['dest']['l'] == l:
                        out.append({'k': 'call'})
                return out
            lmap = {i: loff + i for i in range(len(cb.d['locals']))}
            for i, a in enumerate(t['args']):
                alias = None
                if (i + 1) not in assigned:
                    l = op_local(a)
                    if l is not None:
                        alias = l
                        ds = defs_of(l)
                        if len(ds) == 1 and ds[0]['k'] == 'ref' and ds[0]['place']['p'] == ['deref'] and l > body.arg_count:
                            alias = ds[0]['place']['l']
                if alias is not None:
                    lmap[i + 1] = alias
                else:
                    blocks[bb]['stmts'].append({'k': 'assign', 'place': {'l': loff + i + 1, 'p': [], 'ty': locals_[loff + i + 1]['ty']},
                                                'rv': {'k': 'use', 'op': a}, 'span': t.get('span'), 'inl_arg': p})
            cleanup_site = blocks[bb]['cleanup']
            for cblk in cb.d['blocks']:
                nb = _shift({'stmts': cblk['stmts'], 'term': cblk['term']}, lmap, 0, subst)
                term = _retarget(nb['term'], boff)
                k = term['k']
                if k == 'return':
                    nb['stmts'].append({'k': 'assign', 'place': t['dest'], 'rv': {'k': 'use', 'op': {'move': {'l': loff, 'p': [], 'ty': locals_[loff]['ty']}}},
                                        'span': t.get('span'), 'inl_ret': p})
                    term = {'k': 'goto', 't': t['t']} if t.get('t') is not None else {'k': 'unreachable'}
                elif k == 'resume':
                    if isinstance(t.get('unwind'), int):
                        term = {'k': 'goto', 't': t['unwind']}
                elif k in ('call', 'drop', 'assert'):
                    if term.get('unwind') == 'continue' and isinstance(t.get('unwind'), int):
                        term['unwind'] = t['unwind']
                blocks.append({'cleanup': cblk['cleanup'] or cleanup_site, 'stmts': nb['stmts'], 'term': term, 'inl': p})
            blocks[bb]['term'] = {'k': 'goto', 't': boff, 'inl_call': p, 'span': t.get('span')}
            inlined.append(p)
            changed = True
        if not changed:
            break
    d['blocks'] = blocks
    d['locals'] = locals_
    nb = Body(d, crate)
    nb.inlined = inlined
    nb.original = body
    return nb


class CrateView:
    """A crate in which private helper functions are inlined into their callers.  Helpers all of
    whose call sites were inlined disappear as bodies of their own (their code is judged where it runs)."""
    def __init__(self, crate, want=None, pinned=()):
        self.base = crate
        pinned = set(pinned)
        for a in ('doc', 'file', 'name', 'types', 'adts', 'impls', 'aliases', 'cap_layouts', 'consts', 'fns'):
            setattr(self, a, getattr(crate, a))
        def default_want(p, cb):
            fn = crate.fns.get(p) or {}
            return cb.def_kind in ('Fn', 'AssocFn') and fn.get('vis') not in ('Public',) and cb.promoted is None and p not in pinned
        self.want = want or default_want
        callers = defaultdict(set)
        for b in crate.bodies:
            for bb, t in b.calls():
                p = callee_path(t)
                if p:
                    callers[p].add(b.path)
            # functions used as values (fn pointers, closures passed around) stay
        used_as_value = set()
        for b in crate.bodies:
            for _, _, st in b.statements():
                s = json.dumps(st) if '"fn"' in json.dumps(st) else ''
                for m in _re.finditer(r'"fn": "([^"]+)"', s):
                    used_as_value.add(m.group(1))
            for bb, t in b.calls():
                for a in t['args']:
                    c = a.get('const') if isinstance(a, dict) else None
                    if c and 'fn' in c:
                        used_as_value.add(c['fn'])
        self.bodies = []
        self.absorbed = {}
        helper_paths = set()
        for b in crate.bodies:
            if b.promoted is None and self.want(b.path, b) and callers.get(b.path) and b.path not in used_as_value and b.path not in callers.get(b.path, ()):
                # only helpers every caller of which lives in the same module (module-scoped rules keep their meaning)
                mods = {(crate.body(c).module if crate.body(c) is not None else None) for c in callers[b.path]}
                # callers in the helper's own module or in modules nested in it (a helper shared by sibling files of a directory module)
                if b.module and all(m is not None and (m == b.module or m.startswith(b.module + '::')) for m in mods):
                    helper_paths.add(b.path)
        for b in crate.bodies:
            if b.path in helper_paths:
                self.absorbed[b.path] = sorted(callers[b.path])
                continue
            nb = inline_body(crate, b, lambda p, cb: p in helper_paths)
            self.bodies.append(nb if nb.inlined else b)
        self.by_path = defaultdict(list)
        for b in self.bodies:
            self.by_path[b.path].append(b)

    def body(self, path, promoted=None):
        for b in self.by_path.get(path, []):
            if b.promoted == promoted:
                return b
        return None

    def lookup(self, path, promoted=None):
        return self.body(path, promoted)

    def closures_of(self, path):
        b = self.body(path)
        paths = [path] + list(getattr(b, 'inlined', []) or []) if b is not None else [path]
        out = []
        for p in paths:
            pref = p + '::{closure#'
            out += [c for c in self.bodies if c.path.startswith(pref) and c.promoted is None]
        return out

    def ty(self, key):
        return self.types.get(key)


class RecordingCrate:
    """Wraps a crate and records which function paths the rules ask for (their anchors)."""
    def __init__(self, crate):
        self._c = crate
        self.asked = set()
    def body(self, path, promoted=None):
        self.asked.add(path)
        return self._c.body(path, promoted)
    def closures_of(self, path):
        return self._c.closures_of(path)
    def lookup(self, path, promoted=None):
        """Generic call-graph lookup: not an anchor."""
        return self._c.body(path, promoted)
    def __getattr__(self, a):
        return getattr(self._c, a)


def feasible_reach(body, start, unwind=False, max_states=20000):
    """Blocks reachable from `start` when constants assigned along the way decide the switches they
    feed (a helper that returns `true` after doing X, inlined into `if helper() { A } else { B }`,
    does not reach B after X).  Over-approximates: anything not known to be constant is unknown."""
    seen_states = set()
    reach = set()
    work = [(start, ())]
    n = 0
    while work:
        bb, envt = work.pop()
        if (bb, envt) in seen_states:
            continue
        seen_states.add((bb, envt))
        n += 1
        if n > max_states:
            return body.reachable(start, unwind=unwind)
        reach.add(bb)
        env = dict(envt)
        blk = body.blocks[bb]
        for st in blk['stmts']:
            if st['k'] != 'assign':
                continue
            pl = st['place']
            if pl['p']:
                # a write through a projection of a tracked local invalidates it
                env.pop(pl['l'], None)
                continue
            rv = st['rv']
            val = None
            if rv['k'] == 'use':
                iv = op_int(rv['op'])
                if iv is not None:
                    val = iv
                else:
                    l = op_local(rv['op'])
                    if l is not None and l in env:
                        val = env[l]
            elif rv['k'] == 'un' and rv.get('op') == 'Not':
                l = op_local(rv['o'])
                if l is not None and l in env and env[l] in (0, 1):
                    val = 1 - env[l]
            elif rv['k'] in ('ref', 'rawptr') and not rv['place']['p']:
                env.pop(rv['place']['l'], None)    # address taken: may change behind our back
            if val is None:
                env.pop(pl['l'], None)
            else:
                env[pl['l']] = val
        t = blk['term']
        k = t['k']
        if k == 'switch':
            l = op_local(t['d'])
            iv = op_int(t['d'])
            known = env.get(l) if l is not None else iv
            if known is not None:
                tgt = dict((v, b_) for v, b_ in t['targets']).get(known, t['otherwise'])
                work.append((tgt, tuple(sorted(env.items()))))
                continue
        if k == 'call' and not t['dest']['p']:
            env.pop(t['dest']['l'], None)
        nxt = tuple(sorted(env.items()))
        for s_ in body.successors(bb, unwind):
            work.append((s_, nxt))
    return reach


def paths_reaching(body, target, symbol_of_call, start=0, max_states=20000):
    """Every acyclic normal-edge path from `start` to block `target`, as the truth values it had to
    assume for the boolean results of the calls `symbol_of_call(term)` names (a symbol or None).
    Booleans are followed through copies, `!`, constants and switches.  Returns a list of dicts
    {symbol: bool}; None if the search was cut short."""
    out = []
    work = [(start, {}, {}, frozenset())]
    n = 0
    while work:
        bb, env, asm, seen = work.pop()
        while True:
            n += 1
            if n > max_states:
                return None
            if bb in seen:
                break
            seen = seen | {bb}
            if bb == target:
                out.append(dict(asm))
                break
            blk = body.blocks[bb]
            env = dict(env)
            for st in blk['stmts']:
                if st['k'] != 'assign' or st['place']['p']:
                    continue
                rv = st['rv']
                val = None
                if rv['k'] == 'use':
                    iv = op_int(rv['op'])
                    l = op_local(rv['op'])
                    pl_ = op_place(rv['op'])
                    if iv is not None:
                        val = ('c', bool(iv))
                    elif l is not None:
                        val = env.get(l)
                    elif pl_ is not None and len(pl_['p']) == 1 and isinstance(pl_['p'][0], dict) and 'f' in pl_['p'][0]:
                        # a component of a tuple built on the way: `match (a, b) { (true, _) => … }`
                        tv = env.get(pl_['l'])
                        if tv is not None and tv[0] == 't' and pl_['p'][0]['f'] < len(tv[1]):
                            val = tv[1][pl_['p'][0]['f']]
                elif rv['k'] == 'aggregate' and rv.get('ak') == 'tuple':
                    comps = []
                    for f_ in rv['fields']:
                        iv = op_int(f_)
                        l = op_local(f_)
                        comps.append(('c', bool(iv)) if iv is not None else (env.get(l) if l is not None else None))
                    val = ('t', comps)
                elif rv['k'] == 'un' and rv.get('op') == 'Not':
                    l = op_local(rv['o'])
                    v = env.get(l) if l is not None else None
                    if v is not None and v[0] in ('c', 's'):
                        val = ('c', not v[1]) if v[0] == 'c' else ('s', v[1], not v[2])
                env[st['place']['l']] = val
            t = blk['term']
            k = t['k']
            if k == 'goto':
                bb = t['t']
                continue
            if k in ('drop', 'assert'):
                bb = t['t']
                continue
            if k == 'call':
                if t['t'] is None:
                    break
                if not t['dest']['p']:
                    s = symbol_of_call(t)
                    if isinstance(s, tuple):
                        env[t['dest']['l']] = ('s', s[0], bool(s[1]))
                    else:
                        env[t['dest']['l']] = ('s', s, True) if s is not None else None
                bb = t['t']
                continue
            if k == 'switch':
                l = op_local(t['d'])
                v = env.get(l) if l is not None else None
                if v is None and op_place(t['d']) is not None:
                    pl_ = op_place(t['d'])
                    if len(pl_['p']) == 1 and isinstance(pl_['p'][0], dict) and 'f' in pl_['p'][0]:
                        tv = env.get(pl_['l'])
                        if tv is not None and tv[0] == 't' and pl_['p'][0]['f'] < len(tv[1]):
                            v = tv[1][pl_['p'][0]['f']]
                if v is not None and v[0] == 't':
                    v = None
                tg = dict((a, c) for a, c in t['targets'])
                if v is not None and v[0] == 'c':
                    bb = tg.get(int(v[1]), t['otherwise'])
                    continue
                if v is not None and v[0] == 's':
                    sym, pos = v[1], v[2]
                    nxt = []
                    for truth in (False, True):
                        if sym in asm and asm[sym] != (truth == pos):
                            continue
                        a2 = dict(asm)
                        a2[sym] = (truth == pos)
                        nxt.append((tg.get(int(truth), t['otherwise']), dict(env), a2, seen))
                    if not nxt:
                        break
                    work.extend(nxt[1:])
                    bb, env, asm, seen = nxt[0]
                    seen = seen - {bb}
                    continue
                for a, c in t['targets']:
                    work.append((c, dict(env), dict(asm), seen))
                bb = t['otherwise']
                continue
            break
    return out


# --------------------------------------------------------------------------
# constant evaluation of a small body (the storage primitives, for concrete sizes / offsets / capacities)

def const_eval_outcome(body_d, params, consts, ty_sizes, max_steps=600):
    """Follows the one path that integer constants decide through a body (dict form): `params` maps parameter
    locals to integers, `consts` named constants (`CAP`), `ty_sizes` = (size_of::<T>(), align_of::<T>()).
    Returns ('return' | 'panic' | 'unknown', where): 'panic' only when every decision on the way was made by
    known values; an assertion or switch on an unknown value gives 'unknown' (switch) or is assumed to pass
    (assertion: rustc's own pointer / overflow checks on values we do not track)."""
    M = (1 << 64) - 1
    env = dict(params)
    blocks = body_d['blocks']

    def operand(op):
        if not isinstance(op, dict):
            return None
        if 'const' in op:
            c = op['const']
            if c.get('int') is not None:
                return c['int']
            if c.get('dbg') in consts:
                return consts[c['dbg']]
            return None
        pl = op.get('copy') or op.get('move')
        if pl is None:
            return None
        v = env.get(pl['l'])
        for e in pl['p']:
            if isinstance(e, dict) and 'f' in e and isinstance(v, tuple) and e['f'] < len(v):
                v = v[e['f']]
            else:
                return None
        return v if not isinstance(v, tuple) or not pl['p'] else v
    bb = 0
    for _ in range(max_steps):
        blk = blocks[bb]
        for st in blk['stmts']:
            if st['k'] != 'assign':
                continue
            pl, rv = st['place'], st['rv']
            val = None
            k = rv['k']
            if k == 'use':
                val = operand(rv['op'])
            elif k == 'cast' and rv.get('ck') in ('IntToInt',):
                val = operand(rv['op'])
            elif k == 'un':
                o = operand(rv['o'])
                if isinstance(o, int):
                    if rv['op'] == 'Not':
                        val = (1 - o) if (st['place'].get('ty') == 'bool') else (~o) & M
                    elif rv['op'] == 'Neg':
                        val = (-o) & M
            elif k == 'bin':
                a, c = operand(rv['l']), operand(rv['r'])
                if isinstance(a, int) and isinstance(c, int):
                    op = rv['op']
                    base = op.replace('WithOverflow', '').replace('Unchecked', '')
                    r = None
                    if base == 'Add': r = a + c
                    elif base == 'Sub': r = a - c
                    elif base == 'Mul': r = a * c
                    elif base == 'Div' and c: r = a // c
                    elif base == 'Rem' and c: r = a % c
                    elif base == 'BitAnd': r = a & c
                    elif base == 'BitOr': r = a | c
                    elif base == 'BitXor': r = a ^ c
                    elif base == 'Shl' and c < 64: r = a << c
                    elif base == 'Shr' and c < 64: r = a >> c
                    elif base in ('Lt', 'Le', 'Gt', 'Ge', 'Eq', 'Ne'):
                        r = int({'Lt': a < c, 'Le': a <= c, 'Gt': a > c, 'Ge': a >= c, 'Eq': a == c, 'Ne': a != c}[base])
                    if r is not None:
                        if op.endswith('WithOverflow'):
                            val = (r & M, int(r < 0 or r > M))
                        else:
                            val = r & M if base not in ('Lt', 'Le', 'Gt', 'Ge', 'Eq', 'Ne') else r
            if pl['p']:
                env.pop(pl['l'], None)
            elif val is None:
                env.pop(pl['l'], None)
            else:
                env[pl['l']] = val
        t = blk['term']
        k = t['k']
        if k == 'goto':
            bb = t['t']
        elif k == 'return':
            return ('return', None)
        elif k == 'switch':
            v = operand(t['d'])
            if not isinstance(v, int):
                return ('unknown', fmt_span(t.get('span')))
            bb = dict((a, c) for a, c in t['targets']).get(v, t['otherwise'])
        elif k == 'assert':
            v = operand(t['cond'])
            if isinstance(v, int) and bool(v) != bool(t['expected']):
                return ('panic', '%s (%s)' % (fmt_span(t.get('span')), (t.get('msg') or '')[:60]))
            bb = t['t']
        elif k == 'drop':
            bb = t['t']
        elif k == 'call':
            cp = ((t.get('callee') or {}).get('resolved') or {}).get('path') or (t.get('callee') or {}).get('path') or ''
            if t['t'] is None:
                if cp.startswith('core::panicking::') or cp.startswith('std::rt::begin_panic') or cp.startswith('core::panic'):
                    return ('panic', fmt_span(t.get('span')))
                return ('unknown', fmt_span(t.get('span')))
            d = t['dest']
            if not d['p']:
                if cp in ('core::mem::size_of', 'core::mem::align_of') and ty_sizes is not None and [a.get('ty') for a in (t['callee'].get('args') or [])] == ['T']:
                    env[d['l']] = ty_sizes[0] if cp.endswith('size_of') else ty_sizes[1]
                else:
                    env.pop(d['l'], None)
            bb = t['t']
        else:
            return ('unknown', k)
    return ('unknown', 'step limit')
