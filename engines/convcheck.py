"""convcheck: abstract interpreter for truc_runtime::convert (engine CONV, DESIGN §2.5)
plus the guard rule A-GUARD (C10).

Numeric domain: linear forms `sym + c` over {0, n, p, q} (n = slice length, p/q =
values of the two captured counters at the loop head) with a difference-bound
matrix for path conditions. Ownership domain: the slice is U:[0,lu) dead:[lu,lt)
T:[lt,n); the cleanup closure interprets the buffer through the *counters*, so
at every exit the obligation is  lu == *produced  and  lt == *consumed.
"""
import copy
import re
from collections import defaultdict

from mirlib import (callee_path, callee_decl_path, callee_ty_args, op_place, op_local, op_int,
                    local_defs, single_def, trace_value, fmt_span, place_str, op_str)

FN = 'truc_runtime::convert::try_convert_vec_in_place'
WRAP = 'truc_runtime::convert::convert_vec_in_place'
MAXS = 'MAX'
INF = float('inf')
USIZE_MAX = (1 << 64) - 1


class CUnanalysable(Exception):
    pass


# ---------------------------------------------------------------------------
# difference-bound matrix over symbols

SYMS = ['0', 'n', 'p', 'q', 'i', MAXS]


class DBM:
    def __init__(self):
        self.m = {(a, b): (0 if a == b else INF) for a in SYMS for b in SYMS}
        self.add('0', MAXS, 0, strictly=False)        # 0 <= MAX
        self.m[('0', MAXS)] = -1                      # 0 - MAX <= -1  (MAX >= 1)
        self.close()

    def copy(self):
        d = DBM.__new__(DBM)
        d.m = dict(self.m)
        return d

    def add(self, a, b, c, strictly=False):
        """a - b <= c"""
        if c < self.m[(a, b)]:
            self.m[(a, b)] = c

    def close(self):
        for k in SYMS:
            for i in SYMS:
                for j in SYMS:
                    v = self.m[(i, k)] + self.m[(k, j)]
                    if v < self.m[(i, j)]:
                        self.m[(i, j)] = v

    def consistent(self):
        return all(self.m[(a, a)] >= 0 for a in SYMS)

    def le(self, x, y):
        """prove x <= y for linear forms (sym, c)"""
        (sx, cx), (sy, cy) = x, y
        return self.m[(sx, sy)] <= cy - cx

    def assume_le(self, x, y):
        (sx, cx), (sy, cy) = x, y
        self.add(sx, sy, cy - cx)
        self.close()

    def assume_lt(self, x, y):
        self.assume_le((x[0], x[1] + 1), y)

    def eq(self, x, y):
        return self.le(x, y) and self.le(y, x)


CANDIDATES = ('i==q', 'i==p', '0<=i', 'i<=n')


def apply_candidate(d, c, i, p, q):
    if c == 'i==q':
        d.assume_le(i, q); d.assume_le(q, i)
    elif c == 'i==p':
        d.assume_le(i, p); d.assume_le(p, i)
    elif c == '0<=i':
        d.assume_le(('0', 0), i)
    elif c == 'i<=n':
        d.assume_le(i, ('n', 0))


def holds_candidate(d, c, i, p, q):
    if c == 'i==q':
        return d.eq(i, q)
    if c == 'i==p':
        return d.eq(i, p)
    if c == '0<=i':
        return d.le(('0', 0), i)
    if c == 'i<=n':
        return d.le(i, ('n', 0))
    return False


def lf_add(x, c):
    return (x[0], x[1] + c)


def lf_str(x):
    if x is None:
        return '?'
    s, c = x
    if s == '0':
        return str(c)
    return s if c == 0 else '%s%+d' % (s, c)


# ---------------------------------------------------------------------------
# abstract values of the loop-closure interpreter

class Num:
    def __init__(self, lf):
        self.lf = lf           # (sym, c) or None = unknown
    def __repr__(self):
        return 'Num(%s)' % lf_str(self.lf)


class Cmp:
    def __init__(self, op, a, b):
        self.op, self.a, self.b = op, a, b


class Ovf:
    def __init__(self, kind, res, lhs):
        self.kind, self.res, self.lhs = kind, res, lhs   # flag of a checked add/sub


class CellRef:
    def __init__(self, k):
        self.k = k             # captured field index holding &mut usize


class SliceRef:
    pass


class ConvRef:
    pass


class SlotRef:
    def __init__(self, idx, ty, mut):
        self.idx, self.ty, self.mut = idx, ty, mut
    def __repr__(self):
        return 'SlotRef(%s as %s)' % (lf_str(self.idx), self.ty)


class MU:
    """MaybeUninit<X> local: holds a bit copy of slot `idx` (or nothing)."""
    def __init__(self, ty, idx=None):
        self.ty, self.idx = ty, idx


class MURef:
    def __init__(self, local):
        self.local = local


class Taken:
    """An owned T created from slot idx."""
    def __init__(self, idx):
        self.idx = idx


class Produced:
    """An owned U returned by the converter."""
    pass


class Opt:
    def __init__(self, some):
        self.some = some       # None or SlotRef


class Tup:
    def __init__(self, items):
        self.items = items


class En:
    def __init__(self, kind, variant=None, payload=None):
        self.kind, self.variant, self.payload = kind, variant, payload


class Opaque:
    def __init__(self, what=None):
        self.what = what


class RangeIt:
    """`start..end` used as an iterator (both ends linear forms)."""
    def __init__(self, start, end):
        self.start = start
        self.end = end
    def __repr__(self):
        return 'RangeIt(%s,%s)' % (self.start, self.end)


class SubSlice:
    """`slice[lo..hi]` (linear forms)."""
    def __init__(self, lo, hi, mut):
        self.lo, self.hi, self.mut = lo, hi, mut
    def __repr__(self):
        return 'SubSlice(%s,%s)' % (self.lo, self.hi)


class LenRef:
    """reference to the length of the buffer, read before the loop"""
    pass


class CheckedSub:
    """Option<usize> returned by a.checked_sub(b): Some(a-b) iff b <= a."""
    def __init__(self, a, b):
        self.a, self.b = a, b


class LoopState:
    def __init__(self):
        self.L = {}
        self.cells = {}         # k -> linear form (current value of the counter)
        self.dbm = DBM()
        self.lu = ('p', 0)
        self.lt = ('q', 0)
        self.events = []
        self.trace = []
    def fork(self):
        s = LoopState()
        s.L = dict(self.L)
        s.cells = dict(self.cells)
        s.dbm = self.dbm.copy()
        s.lu, s.lt = self.lu, self.lt
        s.events = list(self.events)
        s.trace = list(self.trace)
        return s


class LoopInterp:
    def __init__(self, ctx, body, cells, slice_k, conv_k, label):
        self.ctx = ctx
        self.b = body
        self.cell_fields = cells           # list of captured field indices that are &mut usize
        self.slice_k = slice_k
        self.conv_k = conv_k
        self.label = label
        self.roles = {}                    # 'p' / 'q' -> field index (inferred)
        self.obl = []                      # discharged obligations (id, where, text)
        self.ok = True

    def fail(self, oid, props, where, msg, key):
        if getattr(self, 'quiet', False):
            return
        self.ok = False
        self.ctx.add(props, oid, where, msg, key=key)

    def discharged(self, oid, where, text):
        if getattr(self, 'quiet', False):
            return
        self.obl.append({'id': oid, 'where': where, 'text': text})

    # -- role inference: which captured counter indexes reads (q) and which indexes writes (p)
    def infer_roles(self):
        b = self.b
        defs = local_defs(b)
        read_idx, write_idx = set(), set()

        def cell_of_index_local(l):
            st = trace_value(b, defs, {'copy': {'l': l, 'p': [], 'ty': None}})
            t = st[-1]
            if t[0] == 'place':
                pl = t[1]
                # (*_x) where _x = copy (*_1).k
                if pl['p'] == ['deref']:
                    st2 = trace_value(b, defs, {'copy': {'l': pl['l'], 'p': [], 'ty': None}})
                    t2 = st2[-1]
                    if t2[0] == 'place' and len(t2[1]['p']) == 2 and t2[1]['p'][0] == 'deref' and 'f' in t2[1]['p'][1]:
                        return t2[1]['p'][1]['f']
            return None

        for bb, t in b.calls():
            p = callee_path(t)
            if p in ('core::ptr::copy_nonoverlapping', 'core::intrinsics::copy_nonoverlapping', 'core::ptr::read'):
                idx = self.index_of_ptr(defs, t['args'][0])
                if idx is not None:
                    c = cell_of_index_local(idx)
                    if c is not None:
                        read_idx.add(c)
            if p == 'core::ptr::write':
                idx = self.index_of_ptr(defs, t['args'][0])
                if idx is not None:
                    c = cell_of_index_local(idx)
                    if c is not None:
                        write_idx.add(c)
        if len(read_idx) != 1 or len(write_idx) != 1 or read_idx == write_idx:
            raise CUnanalysable('cannot infer the roles of the captured counters (read index cells %s, write index cells %s)' % (sorted(read_idx), sorted(write_idx)))
        self.roles = {'q': read_idx.pop(), 'p': write_idx.pop()}

    def index_of_ptr(self, defs, op):
        """pointer operand -> local used as slice index (through casts / reborrows)."""
        b = self.b
        cur = op
        for _ in range(16):
            st = trace_value(b, defs, cur)
            t = st[-1]
            if t[0] == 'call':
                p = callee_path(t[1])
                if p and (p.endswith('::cast') or p.endswith('as_mut_ptr') or p.endswith('as_ptr')):
                    cur = t[1]['args'][0]
                    continue
                return None
            if t[0] == 'ref':
                pl = t[2]
                for e in pl['p']:
                    if isinstance(e, dict) and 'index' in e:
                        return e['index']
                return None
            return None
        return None

    # -- evaluation helpers
    def sym_of_cell(self, k):
        for r, kk in self.roles.items():
            if kk == k:
                return r
        return None

    def place_val(self, st, pl):
        """Value of a place (read)."""
        L = st.L
        v = L.get(pl['l'])
        if pl['l'] == 1 and pl['p'] and pl['p'][0] == 'deref' and len(pl['p']) >= 2 and 'f' in pl['p'][1]:
            k = pl['p'][1]['f']
            if k in self.cell_fields:
                v = CellRef(k)
            elif k == self.slice_k:
                v = SliceRef()
            elif k == self.conv_k:
                v = ConvRef()
            elif k == getattr(self, 'base_k', None) and k is not None:
                v = SliceRef()       # a raw pointer to the first element stands for the buffer
            elif k == getattr(self, 'len_k', None) and k is not None:
                v = LenRef()
            elif getattr(self, 'upvars', None) is not None and k < len(self.upvars):
                v = self.upvars[k]        # a closure applied in place: its captures, evaluated where it was built
            else:
                v = Opaque('upvar %d' % k)
            rest = pl['p'][2:]
        else:
            rest = pl['p']
        for e in rest:
            if e == 'deref':
                if isinstance(v, CellRef):
                    v = Num(st.cells[v.k])
                elif isinstance(v, LenRef):
                    v = Num(('n', 0))
                elif isinstance(v, (SliceRef, ConvRef, SlotRef, MURef, RangeIt, SubSlice)):
                    pass   # deref of a reference we model by the reference itself
                else:
                    v = Opaque('deref')
            elif isinstance(e, dict) and 'index' in e:
                iv = L.get(e['index'])
                if not isinstance(v, SliceRef) or not isinstance(iv, Num) or iv.lf is None:
                    raise CUnanalysable('index expression %s' % place_str(pl))
                v = SlotRef(iv.lf, 'T', False)
            elif isinstance(e, dict) and 'f' in e:
                if isinstance(v, Tup):
                    v = v.items[e['f']]
                elif isinstance(v, En) and getattr(v, 'conv', False) and v.kind == 'Result':
                    # the converter's own answer matched directly: Ok(Converted(u) | Abandonned) / Err(e)
                    v = En('Conv', None, Produced()) if v.variant == 'Ok' else Opaque('error value')
                elif isinstance(v, En):
                    v = v.payload if v.payload is not None else Opaque('payload')
                else:
                    v = Opaque('field')
            elif isinstance(e, dict) and 'downcast' in e:
                if isinstance(v, En) and v.variant is None:
                    v2 = En(v.kind, e.get('name'), v.payload)
                    if getattr(v, 'conv', False):
                        v2.conv = True
                    v = v2
            else:
                raise CUnanalysable('projection %r' % (e,))
        return v

    def operand(self, st, op):
        if 'const' in op:
            c = op['const']
            if 'int' in c:
                return Num(('0', c['int']))
            return Opaque(c.get('dbg'))
        pl = op_place(op)
        return self.place_val(st, pl)

    def assign(self, st, pl, val, where):
        if not pl['p']:
            st.L[pl['l']] = val
            return
        # store through (*_x) where _x is a cell reference
        if pl['p'] == ['deref']:
            r = st.L.get(pl['l'])
            if isinstance(r, CellRef):
                if not isinstance(val, Num) or val.lf is None:
                    raise CUnanalysable('non-linear value stored into a counter at %s' % where)
                st.cells[r.k] = val.lf
                st.events.append(('set', self.sym_of_cell(r.k), val.lf, where))
                return
        if pl['l'] == 1 and len(pl['p']) >= 3 and pl['p'][0] == 'deref' and 'f' in pl['p'][1] and pl['p'][2] == 'deref':
            k = pl['p'][1]['f']
            if k in self.cell_fields and len(pl['p']) == 3:
                if not isinstance(val, Num) or val.lf is None:
                    raise CUnanalysable('non-linear value stored into a counter at %s' % where)
                st.cells[k] = val.lf
                st.events.append(('set', self.sym_of_cell(k), val.lf, where))
                return
        # field of a tuple local etc.
        base = st.L.get(pl['l'])
        if len(pl['p']) == 1 and isinstance(pl['p'][0], dict) and 'f' in pl['p'][0] and isinstance(base, Tup):
            base.items[pl['p'][0]['f']] = val
            return
        raise CUnanalysable('assignment to %s at %s' % (place_str(pl), where))

    def rvalue(self, st, rv, where):
        k = rv['k']
        if k == 'use':
            return self.operand(st, rv['op'])
        if k == 'copy_for_deref':
            return self.place_val(st, rv['place'])
        if k in ('ref', 'rawptr'):
            pl = rv['place']
            mut = rv.get('bk') == 'mut' or bool(rv.get('mut'))
            if not pl['p'] and isinstance(st.L.get(pl['l']), MU):
                return MURef(pl['l'])
            v = self.place_val(st, pl)
            if isinstance(v, SlotRef):
                return SlotRef(v.idx, v.ty, mut)
            if isinstance(v, Num):
                # &(*cell): a reference to the counter itself
                if pl['p'] and pl['p'][-1] == 'deref':
                    inner = dict(pl)
                    inner = {'l': pl['l'], 'p': pl['p'][:-1], 'ty': None}
                    r = self.place_val(st, inner)
                    if isinstance(r, CellRef):
                        return r
                return Opaque('ref num')
            return v
        if k == 'cast':
            v = self.operand(st, rv['op'])
            return v
        if k == 'bin':
            a = self.operand(st, rv['l'])
            b = self.operand(st, rv['r'])
            op = rv['op']
            if op in ('Lt', 'Le', 'Gt', 'Ge', 'Eq', 'Ne') and isinstance(a, Num) and isinstance(b, Num):
                return Cmp(op, a.lf, b.lf)
            if op in ('AddWithOverflow', 'SubWithOverflow', 'Add', 'Sub', 'AddUnchecked', 'SubUnchecked') and isinstance(a, Num) and isinstance(b, Num) \
                    and a.lf is not None and b.lf is not None and b.lf[0] == '0':
                sign = 1 if op.startswith('Add') else -1
                res = lf_add(a.lf, sign * b.lf[1])
                if op.endswith('WithOverflow'):
                    return Tup([Num(res), Ovf('add' if sign > 0 else 'sub', res, a.lf)])
                return Num(res)
            return Opaque('bin %s' % op)
        if k == 'un':
            v = self.operand(st, rv['o'])
            if rv['op'] == 'PtrMetadata':
                return Num(('n', 0))
            if rv['op'] == 'Not' and isinstance(v, Cmp):
                neg = {'Lt': 'Ge', 'Ge': 'Lt', 'Gt': 'Le', 'Le': 'Gt', 'Eq': 'Ne', 'Ne': 'Eq'}
                return Cmp(neg[v.op], v.a, v.b)
            return Opaque('un')
        if k == 'aggregate':
            fields = [self.operand(st, f) for f in rv['fields']]
            if rv['ak'] == 'tuple':
                return Tup(fields)
            if rv['ak'] == 'adt':
                a = rv['adt']
                if a == 'core::option::Option':
                    return Opt(fields[0] if rv['variant'] == 'Some' else None)
                if a == 'core::result::Result':
                    return En('Result', rv['variant'], fields[0] if fields else None)
                if a == 'core::ops::range::Range' and len(fields) == 2 and all(isinstance(f, Num) and f.lf is not None for f in fields):
                    return RangeIt(fields[0].lf, fields[1].lf)
                if a == 'core::ops::range::RangeTo' and len(fields) == 1 and isinstance(fields[0], Num) and fields[0].lf is not None:
                    return RangeIt(('0', 0), fields[0].lf)
                if a == 'core::ops::range::RangeFrom' and len(fields) == 1 and isinstance(fields[0], Num) and fields[0].lf is not None:
                    return RangeIt(fields[0].lf, ('n', 0))
                return En(a, rv.get('variant'), fields[0] if len(fields) == 1 else Tup(fields))
            return Opaque('aggregate')
        if k == 'discr':
            v = self.place_val(st, rv['place'])
            return ('discr', rv['place'], v)
        return Opaque(rv.get('dbg', k))

    # -- conditions
    def apply_cmp(self, dbm, c, truth):
        """Refine dbm with (c == truth); returns False if infeasible."""
        if c.a is None or c.b is None:
            return True
        op = c.op
        if not truth:
            op = {'Lt': 'Ge', 'Ge': 'Lt', 'Gt': 'Le', 'Le': 'Gt', 'Eq': 'Ne', 'Ne': 'Eq'}[op]
        a, b = c.a, c.b
        if op == 'Lt':
            dbm.assume_lt(a, b)
        elif op == 'Le':
            dbm.assume_le(a, b)
        elif op == 'Gt':
            dbm.assume_lt(b, a)
        elif op == 'Ge':
            dbm.assume_le(b, a)
        elif op == 'Eq':
            dbm.assume_le(a, b)
            dbm.assume_le(b, a)
        return dbm.consistent()

    # -- the walk
    def prologue(self, head):
        heads = head if isinstance(head, (set, frozenset)) else {head}
        return self._prologue(heads)

    def _prologue(self, heads):
        """Interprets the closure from its entry to the loop head (the counters are 0 there, O1) and returns
        the iterator locals it set up: {local: RangeIt}.  Anything else it could do to the buffer or the
        counters is refused by `call` / `assign`."""
        st = LoopState()
        st.cells = {self.roles['p']: ('0', 0), self.roles['q']: ('0', 0)}
        st.dbm.assume_le(('0', 0), ('n', 0))
        st.dbm.assume_le(('n', 0), (MAXS, 0))
        self.exits = []
        work = [(st, 0, True)]
        arrived = []
        steps = 0
        while work:
            st, bb, first = work.pop()
            while True:
                steps += 1
                if steps > 2000:
                    raise CUnanalysable('prologue too long')
                if bb in heads:
                    arrived.append(st)
                    break
                t = self.b.blocks[bb]['term']
                if t['k'] == 'call':
                    pth = callee_path(t) or ''
                    dcl = callee_decl_path(t) or ''
                    if not (pth == 'core::slice::<impl [T]>::len' or dcl.endswith('IntoIterator::into_iter')):
                        raise CUnanalysable('closure prologue calls %s' % pth)
                nxt = self.block(st, bb, work)
                if nxt is None:
                    break
                bb = nxt
        if any(e[0] != 'unwind' or True for e in self.exits) and self.exits:
            raise CUnanalysable('the closure can leave before its loop')
        its = None
        # the iterator locals the loop actually advances (borrowed inside the loop)
        in_loop = set()
        for h in heads:
            in_loop |= self.b.reachable(h, unwind=False)
        borrowed = set()
        for bb_, _, s2 in self.b.statements():
            if bb_ in in_loop and s2['k'] == 'assign' and s2['rv']['k'] == 'ref' and not s2['rv']['place']['p']:
                borrowed.add(s2['rv']['place']['l'])
        for s_ in arrived:
            cur = {l: v for l, v in s_.L.items() if isinstance(v, RangeIt) and l in borrowed and (self.b.local_ty(l) or '').startswith('core::ops::range::Range<')}
            if s_.events:
                raise CUnanalysable('closure prologue touches the buffer or the counters')
            if its is not None and {l: (v.start, v.end) for l, v in cur.items()} != {l: (v.start, v.end) for l, v in its.items()}:
                raise CUnanalysable('different iterators reach the loop head')
            its = cur
        # what the prologue left in the locals (references to the buffer / the counters, constants)
        # stays valid in the loop: locals only change when they are assigned
        # — so a local that anything past a loop head assigns (a statement, a call's destination) is not
        # carried: its value at the head would be the one of the previous way round
        assigned = set()
        everything = set()
        for h in heads:
            everything |= self.b.reachable(h, unwind=True)
        for bb_ in everything:
            blk = self.b.blocks[bb_]
            for s2 in blk['stmts']:
                if s2['k'] == 'assign' and not s2['place']['p']:
                    assigned.add(s2['place']['l'])
            if blk['term']['k'] == 'call' and blk['term'].get('dest') and not blk['term']['dest']['p']:
                assigned.add(blk['term']['dest']['l'])
        self.entry_locals = {l: v for l, v in arrived[0].L.items() if l not in assigned or isinstance(v, RangeIt)} if len(arrived) == 1 else {}
        return its or {}

    def run(self, head, ranges=None, assume=None, others=()):
        """Interpret from the loop head with the invariant 0<=p<=q<=n<=MAX assumed (plus, for a loop
        driven by a `start..end` iterator, the candidate facts in `assume` about its position `i`)."""
        st = LoopState()
        st.cells = {self.roles['p']: ('p', 0), self.roles['q']: ('q', 0)}
        d = st.dbm
        d.assume_le(('0', 0), ('p', 0))
        d.assume_le(('p', 0), ('q', 0))
        d.assume_le(('q', 0), ('n', 0))
        d.assume_le(('n', 0), (MAXS, 0))
        st.L.update(getattr(self, 'entry_locals', {}) or {})
        for l, r in (ranges or {}).items():
            st.L[l] = RangeIt(('i', 0), r.end)
        for c in assume or []:
            apply_candidate(d, c, ('i', 0), ('p', 0), ('q', 0))
        self.exits = []
        work = [(st, head, True)]
        steps = 0
        while work:
            st, bb, first = work.pop()
            while True:
                steps += 1
                if steps > 20000:
                    raise CUnanalysable('path explosion')
                if bb == head and not first:
                    self.exits.append(('back', st, bb))
                    break
                if bb in others and not first:
                    # another loop of the closure: a cut point with the same invariant
                    self.exits.append(('next', st, bb))
                    break
                first = False
                st.trace.append(bb)
                nxt = self.block(st, bb, work)
                if nxt is None:
                    break
                bb = nxt
        return self.exits

    def span(self, t):
        return fmt_span(t.get('span'))

    def block(self, st, bb, work):
        b = self.b
        blk = b.blocks[bb]
        for stmt in blk['stmts']:
            k = stmt['k']
            if k == 'assign':
                where = fmt_span(stmt.get('span'))
                val = self.rvalue(st, stmt['rv'], where)
                self.assign(st, stmt['place'], val, where)
            elif k in ('live', 'dead', 'assume'):
                continue
            else:
                raise CUnanalysable('statement %s in loop closure' % k)
        t = blk['term']
        k = t['k']
        if k == 'goto':
            return t['t']
        if k == 'return':
            self.exits.append(('return', st, bb))
            return None
        if k == 'resume':
            self.exits.append(('unwind', st, bb))
            return None
        if k in ('unreachable', 'abort'):
            return None
        if k == 'switch':
            d = self.operand(st, t['d'])
            if isinstance(d, Cmp):
                outs = []
                for val, tgt in t['targets']:
                    s2 = st.fork()
                    if self.apply_cmp(s2.dbm, d, bool(val)):
                        outs.append((s2, tgt))
                s2 = st.fork()
                # otherwise = the negation of every listed value; bools: the other value
                listed = [v for v, _ in t['targets']]
                other_truth = not bool(listed[0]) if len(listed) == 1 else None
                if other_truth is None or self.apply_cmp(s2.dbm, d, other_truth):
                    outs.append((s2, t['otherwise']))
                for s2, tgt in outs[1:]:
                    work.append((s2, tgt, False))
                if not outs:
                    return None
                st.__dict__.update(outs[0][0].__dict__)
                return outs[0][1]
            if isinstance(d, Num) and d.lf is not None and d.lf[0] == '0':
                for val, tgt in t['targets']:
                    if val == d.lf[1]:
                        return tgt
                return t['otherwise']
            if isinstance(d, Num) and d.lf is not None:
                # `match counter { 0 => …, n => … }`: each arm learns the value it matched
                outs = []
                for val, tgt in t['targets']:
                    s2 = st.fork()
                    s2.dbm.assume_le(d.lf, ('0', val))
                    s2.dbm.assume_le(('0', val), d.lf)
                    if s2.dbm.consistent():
                        outs.append((s2, tgt))
                s2 = st.fork()
                vals = sorted(v for v, _ in t['targets'])
                if vals == list(range(len(vals))) and st.dbm.le(('0', 0), d.lf):
                    s2.dbm.assume_le(('0', len(vals)), d.lf)      # none of 0..k-1: at least k
                if s2.dbm.consistent():
                    outs.append((s2, t['otherwise']))
                for s3, tgt in outs[1:]:
                    work.append((s3, tgt, False))
                if not outs:
                    return None
                st.__dict__.update(outs[0][0].__dict__)
                return outs[0][1]
            if isinstance(d, tuple) and d[0] == 'discr' and isinstance(d[2], CheckedSub) and not d[1]['p']:
                cs = d[2]
                outs = []
                tg = dict(t['targets'])
                some_t = tg.get(1, t['otherwise'])
                none_t = tg.get(0, t['otherwise'])
                diff = lf_add(cs.a, -cs.b[1])
                s_some = st.fork()
                s_some.dbm.assume_le(cs.b if cs.b[0] != '0' else ('0', cs.b[1]), cs.a)
                if s_some.dbm.consistent():
                    s_some.L[d[1]['l']] = En('Option', 'Some', Num(diff))
                    outs.append((s_some, some_t))
                s_none = st.fork()
                s_none.dbm.assume_lt(cs.a, ('0', cs.b[1]))
                if s_none.dbm.consistent():
                    s_none.L[d[1]['l']] = En('Option', 'None', None)
                    outs.append((s_none, none_t))
                for s2, tgt in outs[1:]:
                    work.append((s2, tgt, False))
                if not outs:
                    return None
                st.__dict__.update(outs[0][0].__dict__)
                return outs[0][1]
            if isinstance(d, tuple) and d[0] == 'discr':
                v = d[2]
                if isinstance(v, En) and v.variant is not None:
                    names = {'Result': ['Ok', 'Err'], 'ControlFlow': ['Continue', 'Break'], 'Conv': ['Converted', 'Abandonned'], 'Option': ['None', 'Some']}.get(v.kind)
                    if names and v.variant in names:
                        i = names.index(v.variant)
                        for val, tgt in t['targets']:
                            if val == i:
                                return tgt
                        return t['otherwise']
                # unknown variant: fork, refining the value
                outs = []
                kind = v.kind if isinstance(v, En) else None
                names = {'Result': ['Ok', 'Err'], 'ControlFlow': ['Continue', 'Break'], 'Conv': ['Converted', 'Abandonned']}.get(kind)
                for val, tgt in t['targets']:
                    s2 = st.fork()
                    if names and val < len(names) and not d[1]['p']:
                        old = s2.L.get(d[1]['l'])
                        s2.L[d[1]['l']] = En(kind, names[val], old.payload if isinstance(old, En) else None)
                        for attr in ('conv', 'src'):
                            if hasattr(old, attr):
                                setattr(s2.L[d[1]['l']], attr, getattr(old, attr))
                    outs.append((s2, tgt))
                if not names or len(t['targets']) < len(names):
                    outs.append((st.fork(), t['otherwise']))
                for s2, tgt in outs[1:]:
                    work.append((s2, tgt, False))
                st.__dict__.update(outs[0][0].__dict__)
                return outs[0][1]
            # drop flags and other booleans we do not model: both ways
            outs = [(st.fork(), tgt) for _, tgt in t['targets']] + [(st.fork(), t['otherwise'])]
            for s2, tgt in outs[1:]:
                work.append((s2, tgt, False))
            st.__dict__.update(outs[0][0].__dict__)
            return outs[0][1]
        if k == 'assert':
            c = self.operand(st, t['cond'])
            feasible_fail = True
            if isinstance(c, Cmp):
                s2 = st.fork()
                feasible_fail = self.apply_cmp(s2.dbm, c, not t['expected'])
                self.apply_cmp(st.dbm, c, t['expected'])
            elif isinstance(c, Ovf):
                if c.kind == 'add':
                    feasible_fail = not st.dbm.le(c.res, (MAXS, 0))
                else:
                    feasible_fail = not st.dbm.le(('0', 0), c.res)
                s2 = st.fork()
            else:
                s2 = st.fork()
                if t['unwind'] == 'unreachable':
                    feasible_fail = False
            if feasible_fail and t['unwind'] not in ('unreachable', 'terminate'):
                s2.events.append(('assert-fail', t['msg'][:40], self.span(t)))
                if isinstance(t['unwind'], int):
                    work.append((s2, t['unwind'], False))
                else:
                    self.exits.append(('unwind', s2, bb))
            elif not feasible_fail:
                self.discharged('O1', self.span(t), 'assertion `%s` cannot fail under the region invariant (edge pruned)' % t['msg'][:50])
            return t['t']
        if k == 'drop':
            # dropping an owned local may run a user destructor that panics: out of scope
            return t['t']
        if k == 'call':
            return self.call(st, bb, t, work)
        raise CUnanalysable('terminator %s' % k)

    def apply_closure(self, st, cl_op, arg, where):
        """Value of `closure(arg)` for a capture-less closure built on the spot (e.g. the pointer cast in
        `.map(|last| &mut *(last as *mut T).cast::<U>())`): its body is interpreted with the same state."""
        defs = local_defs(self.b)
        c = trace_value(self.b, defs, cl_op)[-1]
        if not (c[0] == 'rv' and c[1].get('ak') == 'closure'):
            raise CUnanalysable('cannot see through the closure applied at %s' % where)
        upvars = [self.operand(st, f) for f in c[1]['fields']]
        cb = self.crate.lookup(c[1]['closure']) if getattr(self, 'crate', None) is not None else None
        if cb is None:
            raise CUnanalysable('closure body not found at %s' % where)
        sub = LoopInterp(self.ctx, cb, [], None, None, self.label)
        sub.roles = self.roles
        sub.crate = self.crate
        sub.upvars = upvars
        sub.cell_fields = []
        sub.quiet = getattr(self, 'quiet', False)
        sub.obl = self.obl
        sub.exits = []
        saved = st.L
        st.L = {1: Tup(list(upvars)), 2: arg}     # (by-value closure: `_1.k`; by-reference: `(*_1).k` through upvars)
        work = []
        bb = 0
        for _ in range(200):
            nxt = sub.block(st, bb, work)
            if nxt is None:
                break
            bb = nxt
        if work or len(sub.exits) != 1 or sub.exits[0][0] != 'return':
            st.L = saved
            raise CUnanalysable('the closure applied at %s branches or can unwind' % where)
        ret = st.L.get(0)
        st.L = saved
        return ret

    def take(self, st, idx, where):
        """slot `idx` becomes an owned T (O2/O4): it must be the first live input and must
        already be outside the T region as the counters describe it"""
        q_now = st.cells[self.roles['q']]
        if not st.dbm.eq(idx, st.lt):
            self.fail('O4', ['C08', 'C09'], where, 'the element brought back as an owned T is slot %s, the first live input is slot %s' % (lf_str(idx), lf_str(st.lt)), 'take-order')
        if not st.dbm.le(lf_add(idx, 1), ('n', 0)):
            self.fail('O2', ['C08', 'C09'], where, 'slot %s is read without proof that it is inside the vector' % lf_str(idx), 'take-bounds')
        if st.dbm.le(lf_add(idx, 1), q_now):
            self.discharged('O2', where, 'slot %s is already outside the T region [%s, n) when it becomes an owned value' % (lf_str(idx), lf_str(q_now)))
        # otherwise the counter must catch up before anything can unwind: decided at the exits
        st.lt = lf_add(idx, 1)
        st.events.append(('take', idx, where))
        return Taken(idx)

    def unwind_edge(self, st, bb, t, work, what):
        if t['unwind'] in ('unreachable', 'terminate'):
            return
        s2 = st.fork()
        s2.events.append(('unwind-from', what, self.span(t)))
        if isinstance(t['unwind'], int):
            work.append((s2, t['unwind'], False))
        else:
            self.exits.append(('unwind', s2, bb))

    def call(self, st, bb, t, work):
        p = callee_path(t)
        decl = callee_decl_path(t)
        args = [self.operand(st, a) for a in t['args']]
        tys = callee_ty_args(t)
        where = self.span(t)
        ret = Opaque(p)
        can_unwind = False
        if p is None:
            raise CUnanalysable('indirect call at %s' % where)
        if p == 'core::slice::<impl [T]>::len':
            ret = Num(('n', 0))
        elif p in ('core::num::<impl usize>::checked_sub', 'core::num::<impl usize>::checked_add') and isinstance(args[0], Num) and isinstance(args[1], Num) \
                and args[0].lf is not None and args[1].lf is not None and args[1].lf[0] == '0' and p.endswith('checked_sub'):
            ret = CheckedSub(args[0].lf, args[1].lf)
        elif (decl or '').endswith('IntoIterator::into_iter') and args and isinstance(args[0], RangeIt):
            ret = args[0]
        elif p in ('core::slice::<impl [T]>::get', 'core::slice::<impl [T]>::get_mut') and len(args) == 2 and isinstance(args[0], SliceRef) and isinstance(args[1], Num) and args[1].lf is not None:
            # slice.get(i): Some(&slice[i]) exactly when i < len
            if t['t'] is None or t['dest']['p']:
                raise CUnanalysable('slice.get at %s' % where)
            idx = args[1].lf
            s_none = st.fork()
            s_none.dbm.assume_le(('n', 0), idx)
            if s_none.dbm.consistent():
                s_none.L[t['dest']['l']] = En('Option', 'None', None)
                work.append((s_none, t['t'], False))
            st.dbm.assume_lt(idx, ('n', 0))
            if not st.dbm.consistent():
                return None
            st.L[t['dest']['l']] = En('Option', 'Some', SlotRef(idx, 'T', p.endswith('get_mut')))
            return t['t']
        elif (decl or '') in ('core::ops::index::Index::index', 'core::ops::index::IndexMut::index_mut') and len(args) == 2 and isinstance(args[0], SliceRef) and isinstance(args[1], RangeIt):
            r = args[1]
            # out of range panics: an unwind edge unless the bounds are proved
            if not (st.dbm.le(r.start, r.end) and st.dbm.le(r.end, ('n', 0))):
                can_unwind = True
            ret = SubSlice(r.start, r.end, decl.endswith('index_mut'))
        elif p in ('core::slice::<impl [T]>::last_mut', 'core::slice::<impl [T]>::last') and args and isinstance(args[0], SubSlice):
            ss = args[0]
            if t['t'] is None or t['dest']['p']:
                raise CUnanalysable('last() at %s' % where)
            s_none = st.fork()
            s_none.dbm.assume_le(ss.hi, ss.lo)
            if s_none.dbm.consistent():
                s_none.L[t['dest']['l']] = En('Option', 'None', None)
                work.append((s_none, t['t'], False))
            st.dbm.assume_lt(ss.lo, ss.hi)
            if not st.dbm.consistent():
                return None
            st.L[t['dest']['l']] = En('Option', 'Some', SlotRef(lf_add(ss.hi, -1), 'T', p.endswith('last_mut') and ss.mut))
            return t['t']
        elif p == 'core::bool::<impl bool>::then' and len(args) == 2 and isinstance(args[0], Cmp):
            # cond.then(f): Some(f()) exactly when cond holds
            if t['t'] is None or t['dest']['p']:
                raise CUnanalysable('then at %s' % where)
            s_none = st.fork()
            if self.apply_cmp(s_none.dbm, args[0], False):
                s_none.L[t['dest']['l']] = En('Option', 'None', None)
                work.append((s_none, t['t'], False))
            if not self.apply_cmp(st.dbm, args[0], True):
                return None
            st.L[t['dest']['l']] = En('Option', 'Some', self.apply_closure(st, t['args'][1], Opaque('no argument'), where))
            return t['t']
        elif p == 'core::option::Option::<T>::map' and len(args) == 2 and isinstance(args[0], CheckedSub):
            # a.checked_sub(b).map(f): Some(f(a - b)) exactly when b <= a
            cs = args[0]
            if t['t'] is None or t['dest']['p']:
                raise CUnanalysable('map at %s' % where)
            s_none = st.fork()
            s_none.dbm.assume_lt(cs.a, ('0', cs.b[1]))
            if s_none.dbm.consistent():
                s_none.L[t['dest']['l']] = En('Option', 'None', None)
                work.append((s_none, t['t'], False))
            st.dbm.assume_le(('0', cs.b[1]), cs.a)
            if not st.dbm.consistent():
                return None
            st.L[t['dest']['l']] = En('Option', 'Some', self.apply_closure(st, t['args'][1], Num(lf_add(cs.a, -cs.b[1])), where))
            return t['t']
        elif p == 'core::option::Option::<T>::map' and len(args) == 2 and isinstance(args[0], En) and args[0].kind == 'Option' and args[0].variant is not None:
            if args[0].variant == 'None':
                ret = En('Option', 'None', None)
            else:
                ret = En('Option', 'Some', self.apply_closure(st, t['args'][1], args[0].payload, where))
        elif (decl or '').endswith('Iterator::next') and args and isinstance(args[0], RangeIt) and 'Range<' in (p or ''):
            r = args[0]
            home = [l for l, v in st.L.items() if v is r and (self.b.local_ty(l) or '').startswith('core::ops::range::Range<')]
            if len(home) != 1:
                raise CUnanalysable('cannot find the range iterator advanced at %s' % where)
            if t['t'] is None or t['dest']['p']:
                raise CUnanalysable('Range::next at %s' % where)
            s_none = st.fork()
            s_none.dbm.assume_le(r.end, r.start)
            if s_none.dbm.consistent():
                s_none.L[t['dest']['l']] = En('Option', 'None', None)
                work.append((s_none, t['t'], False))
            st.dbm.assume_lt(r.start, r.end)
            if not st.dbm.consistent():
                return None
            st.L[home[0]] = RangeIt(lf_add(r.start, 1), r.end)
            st.L[t['dest']['l']] = En('Option', 'Some', Num(r.start))
            return t['t']
        elif p == 'core::mem::maybe_uninit::MaybeUninit::<T>::uninit':
            ret = MU(tys[-1] if tys else None)
        elif p == 'core::mem::maybe_uninit::MaybeUninit::<T>::as_mut_ptr':
            ret = args[0]
        elif p in ('core::ptr::copy_nonoverlapping', 'core::intrinsics::copy_nonoverlapping'):
            src, dst, cnt = args
            if not (isinstance(cnt, Num) and cnt.lf == ('0', 1)):
                raise CUnanalysable('copy_nonoverlapping with count != 1 at %s' % where)
            if isinstance(src, SlotRef) and isinstance(dst, MURef):
                mu = st.L.get(dst.local)
                if not isinstance(mu, MU):
                    raise CUnanalysable('copy destination at %s' % where)
                st.L[dst.local] = MU(mu.ty, src.idx)
                st.events.append(('bitcopy', src.idx, where))
            else:
                raise CUnanalysable('copy_nonoverlapping operands at %s' % where)
        elif p == 'core::mem::maybe_uninit::MaybeUninit::<T>::assume_init':
            mu = args[0]
            if not isinstance(mu, MU) or mu.idx is None:
                raise CUnanalysable('assume_init of something that is not a bit copy of a slot at %s' % where)
            ret = self.take(st, mu.idx, where)
        elif p in ('core::ptr::read', 'core::ptr::const_ptr::<impl *const T>::read', 'core::ptr::mut_ptr::<impl *mut T>::read') and isinstance(args[0], SlotRef) and args[0].ty == 'T':
            # ptr::read(&slice[i]): bit copy and ownership in one step
            st.events.append(('bitcopy', args[0].idx, where))
            ret = self.take(st, args[0].idx, where)
        elif p in ('core::ptr::mut_ptr::<impl *mut T>::add', 'core::ptr::const_ptr::<impl *const T>::add') and len(args) == 2 and isinstance(args[0], SliceRef) and isinstance(args[1], Num) and args[1].lf is not None:
            ret = SlotRef(args[1].lf, 'T', 'mut_ptr' in p)        # base.add(i): slot i (no bounds check: the uses prove the range)
        elif p in ('core::ptr::mut_ptr::<impl *mut T>::cast', 'core::ptr::const_ptr::<impl *const T>::cast'):
            a = args[0]
            if isinstance(a, SlotRef):
                ret = SlotRef(a.idx, 'U' if (tys and tys[-1] == 'U') else a.ty, a.mut)
            else:
                ret = a
        elif p in ('core::ptr::write', 'core::ptr::mut_ptr::<impl *mut T>::write'):
            dst, val = args
            if not isinstance(dst, SlotRef) or dst.ty != 'U':
                raise CUnanalysable('ptr::write destination at %s' % where)
            if not isinstance(val, Produced):
                self.fail('O4', ['C08'], where, 'the value stored into the vector is not the converter\'s output', 'write-value')
            if not st.dbm.eq(dst.idx, st.lu):
                self.fail('O4', ['C08', 'C09'], where, 'output stored at slot %s, the first dead slot after the outputs is %s (outputs would not be contiguous / in order)' % (lf_str(dst.idx), lf_str(st.lu)), 'write-order')
            if not st.dbm.le(lf_add(dst.idx, 1), st.lt):
                self.fail('O2', ['C08', 'C09'], where, 'output stored at slot %s which may still hold a live input (first live input is %s)' % (lf_str(dst.idx), lf_str(st.lt)), 'write-over-live')
            else:
                self.discharged('O2', where, 'slot %s is dead (>= outputs %s, < inputs %s) when the output is stored' % (lf_str(dst.idx), lf_str(st.lu), lf_str(st.lt)))
            st.lu = lf_add(dst.idx, 1)
            st.events.append(('store', dst.idx, where))
        elif decl in ('core::ops::function::Fn::call', 'core::ops::function::FnMut::call_mut', 'core::ops::function::FnOnce::call_once') and isinstance(args[0], ConvRef):
            tup = args[1]
            if not isinstance(tup, Tup) or len(tup.items) != 2:
                raise CUnanalysable('converter arguments at %s' % where)
            tv, ov = tup.items
            if isinstance(ov, En) and ov.kind == 'Option' and ov.variant is not None:
                ov = Opt(ov.payload if ov.variant == 'Some' else None)
            st.events.append(('convert', where))
            if not isinstance(tv, Taken):
                self.fail('O3', ['C08'], where, 'the converter does not receive the owned input element', 'conv-arg0')
            elif not st.dbm.eq(lf_add(tv.idx, 1), st.lt):
                self.fail('O3', ['C08'], where, 'the converter receives the element of slot %s, expected the most recently taken one' % lf_str(tv.idx), 'conv-arg0-order')
            if isinstance(ov, Opt):
                if ov.some is None:
                    # must be on the produced == 0 edge
                    if not st.dbm.le(st.lu, ('0', 0)):
                        self.fail('O3', ['C08'], where, 'the converter receives None although an output may already exist (outputs end at %s)' % lf_str(st.lu), 'conv-none')
                    else:
                        self.discharged('O3', where, 'None is passed exactly when no output exists (produced = 0)')
                else:
                    r = ov.some
                    if not isinstance(r, SlotRef) or r.ty != 'U' or not r.mut:
                        self.fail('O3', ['C08'], where, 'the previous-output argument is not a `&mut U` into the vector', 'conv-some-kind')
                    elif not st.dbm.eq(lf_add(r.idx, 1), st.lu):
                        self.fail('O3', ['C08', 'C09'], where, 'the converter receives a reference to slot %s as previous output; the most recent output is slot %s' % (lf_str(r.idx), lf_str(lf_add(st.lu, -1))), 'conv-some-idx')
                    elif not st.dbm.le(('0', 0), r.idx):
                        self.fail('O3', ['C08'], where, 'previous-output index may be negative', 'conv-some-neg')
                    else:
                        self.discharged('O3', where, 'Some(&mut slot[%s] as U) is the most recent output (outputs end at %s)' % (lf_str(r.idx), lf_str(st.lu)))
            else:
                raise CUnanalysable('previous-output argument at %s' % where)
            can_unwind = True
            ret = En('Result', None, None)
            ret.payload = None
            ret.conv = True
        elif p.endswith('as core::ops::try_trait::Try>::branch'):
            a = args[0]
            ret = En('ControlFlow', None, None)
            ret.src = a
        elif p.endswith('::from_residual'):
            ret = En('Result', 'Err', None)
        else:
            # anything else must not receive the slice, a counter or a slot
            for a in args:
                if isinstance(a, (CellRef, SliceRef, SlotRef, MURef, MU, Taken)):
                    raise CUnanalysable('call to %s with the buffer / a counter / an element at %s' % (p, where))
            can_unwind = True
        if can_unwind:
            self.unwind_edge(st, bb, t, work, p)
        if t['t'] is None:
            return None
        # payload conventions for the values the match arms move out
        if isinstance(ret, En) and ret.kind == 'ControlFlow':
            ret.payload = En('Conv', None, Produced())
        self.assign(st, t['dest'], ret, where) if not t['dest']['p'] else None
        return t['t']


# ---------------------------------------------------------------------------

def find_loop_head(body):
    """target of a back edge (DFS)"""
    color = {}
    heads = set()
    stack = [(0, iter(body.successors(0)))]
    color[0] = 1
    while stack:
        n, it = stack[-1]
        try:
            s = next(it)
            if color.get(s) == 1:
                heads.add(s)
            elif s not in color:
                color[s] = 1
                stack.append((s, iter(body.successors(s))))
        except StopIteration:
            color[n] = 2
            stack.pop()
    return heads


def run(ctx, crate, label):
    conv = {'obligations': [], 'config': label}
    ctx.conv = conv
    outer = crate.body(FN)
    if outer is None:
        ctx.add(['C08', 'C09', 'C10'], 'CONV-ANCHOR', FN, 'function not found (anchor lost)', key='anchor')
        return
    try:
        guard_rule(ctx, crate, outer, label)
    except CUnanalysable as e:
        ctx.add(['C10'], 'A-GUARD', FN, 'unanalysable: %s' % e, key='unanalysable')
    try:
        outer_info = outer_rules(ctx, crate, outer, conv, label)
    except CUnanalysable as e:
        ctx.add(['C08', 'C09'], 'CONV-UNANALYSABLE', FN, 'unanalysable: %s' % e, key='outer')
        return
    if outer_info is None:
        return
    loop_body = crate.body(outer_info['loop_closure'])
    try:
        loop_rules(ctx, crate, loop_body, outer_info, conv, label)
    except CUnanalysable as e:
        ctx.add(['C08', 'C09'], 'CONV-UNANALYSABLE', outer_info['loop_closure'], 'unanalysable: %s' % e, key='loop')
    try:
        cleanup_rules(ctx, crate, outer_info, conv, label)
    except CUnanalysable as e:
        ctx.add(['C09'], 'CONV-UNANALYSABLE', outer_info.get('cleanup_closure') or FN, 'unanalysable: %s' % e, key='cleanup')


def loop_rules(ctx, crate, body, info, conv, label):
    li = LoopInterp(ctx, body, info['cell_fields'], info['slice_field'], info['conv_field'], label)
    li.crate = crate
    li.base_k, li.len_k = info.get('base_field'), info.get('len_field')
    try:
        li.infer_roles()
    except CUnanalysable:
        # the loop does not index the buffer with the counters themselves (e.g. it is driven by a
        # `0..len` iterator): the roles are those the outer function gives the counters — the one
        # handed to set_len on success counts the outputs, the other one the inputs consumed
        ob, odefs = info['outer'], info['defs']
        inv = {l: k for k, l in info['cell_locals'].items()}
        produced = set()
        for bb, t in ob.calls():
            if callee_path(t) == 'alloc::vec::Vec::<T, A>::set_len' and op_int(t['args'][1]) is None:
                l = op_local(t['args'][1])
                for _ in range(6):
                    if l is None or l in inv:
                        break
                    d = single_def(odefs, l)
                    l = op_local(d[3]['rv']['op']) if d and d[0] == 'stmt' and d[3]['rv']['k'] == 'use' else None
                if l in inv:
                    produced.add(inv[l])
        if len(produced) != 1:
            raise
        pk = produced.pop()
        li.roles = {'p': pk, 'q': [k for k in info['cell_fields'] if k != pk][0]}
    # the roles must match the outer function's: produced counter feeds set_len, etc.
    info['roles'] = li.roles
    heads = find_loop_head(body)
    if len(heads) == 0:
        # no loop of its own: the iteration may be `(0..len).try_for_each(|index| …)`
        exits = closure_driven_loop(ctx, crate, body, li, info, label)
        heads = None
    elif len(heads) != 1:
        # several loops (a lead-in loop, a loop that skips, nested loops): every head is a cut point
        # with the same region invariant; each is interpreted from its head to the next cut point
        if li.prologue(set(heads)):
            raise CUnanalysable('several loops in the conversion closure and a range iterator drives one of them')
        li.loop_head = sorted(heads)
        exits = []
        for h in sorted(heads):
            exits += li.run(h, None, None, others=set(heads) - {h})
        li.discharged('O1', body.span(), 'loops with heads %s: each interpreted from its head, under the region invariant, to the next arrival at a head' % sorted(heads))
        heads = None
    if heads is not None:
        exits = iterate_in_body(li, body, heads.pop())
    judge_exits(ctx, body, li, exits, conv, label)


def iterate_in_body(li, body, head):
    li.loop_head = head
    # entry reaches the head without touching counters or the slice (it may set up a `start..end` iterator)
    ranges = li.prologue(head)
    assume = []
    if ranges:
        if len(ranges) != 1:
            raise CUnanalysable('several range iterators drive the loop')
        r0 = list(ranges.values())[0]
        if r0.start != ('0', 0) or r0.end != ('n', 0):
            raise CUnanalysable('the loop iterator is %s..%s, expected 0..len' % (lf_str(r0.start), lf_str(r0.end)))
        # facts about the iterator position that hold on entry (all counters are 0 there); keep those
        # that every way round the loop re-establishes
        assume = list(CANDIDATES)
        li.quiet = True
        for _ in range(len(CANDIDATES) + 1):
            ex = li.run(head, ranges, assume)
            keep = []
            for c in assume:
                ok = True
                for kind, st, bb in ex:
                    if kind != 'back':
                        continue
                    rl = [v for l, v in st.L.items() if l in ranges and isinstance(v, RangeIt)]
                    if len(rl) != 1 or not holds_candidate(st.dbm, c, rl[0].start, st.cells[li.roles['p']], st.cells[li.roles['q']]):
                        ok = False
                if ok:
                    keep.append(c)
            if keep == assume:
                break
            assume = keep
        li.quiet = False
        li.discharged('O1', body.span(), 'loop driven by 0..len: position facts kept by every iteration: %s' % ', '.join(assume))
    return li.run(head, ranges, assume)


def closure_driven_loop(ctx, crate, body, li, info, label):
    """The conversion closure hands the iteration to `Iterator::try_for_each` over `0..len` with a closure
    taking the index.  One call of that closure is one iteration: it is interpreted from its entry with the
    index `i` (a symbol, `i < len`), the facts about `i` kept Houdini-style as for a range-driven `for`.
    A return of `Ok(())` / `Continue` is the way round the loop (next index `i + 1`), any other return leaves
    the loop with a failure; exhaustion of the range (`len <= i`) is the successful exit."""
    defs = local_defs(body)
    driver = None
    for bb, t in body.calls():
        dp = callee_decl_path(t) or ''
        if dp.endswith('Iterator::try_for_each') and len(t['args']) == 2:
            driver = (bb, t)
    if driver is None:
        raise CUnanalysable('expected exactly one loop in the conversion closure, found none')
    bb_d, t_d = driver
    # the prologue runs up to the block of the driver call
    li.prologue(bb_d)
    st0 = LoopState()
    st0.cells = {li.roles['p']: ('0', 0), li.roles['q']: ('0', 0)}
    st0.L.update(li.entry_locals or {})
    for s in body.blocks[bb_d]['stmts']:
        if s['k'] == 'assign':
            li.assign(st0, s['place'], li.rvalue(st0, s['rv'], fmt_span(s.get('span'))), fmt_span(s.get('span')))
    rng = li.operand(st0, t_d['args'][0])
    if not isinstance(rng, RangeIt) or rng.start != ('0', 0) or rng.end != ('n', 0):
        raise CUnanalysable('the iteration is not over 0..len (%r)' % (rng,))
    cl = trace_value(body, defs, t_d['args'][1])[-1]
    if not (cl[0] == 'rv' and cl[1].get('ak') == 'closure'):
        raise CUnanalysable('cannot see the closure handed to try_for_each')
    inner = crate.lookup(cl[1]['closure'])
    if inner is None or find_loop_head(inner):
        raise CUnanalysable('the closure handed to try_for_each has a loop of its own')
    upvars = [li.operand(st0, f) for f in cl[1]['fields']]
    # after the driver call the closure only returns its answer
    after = body.reachable(t_d['t'], unwind=False) if t_d['t'] is not None else set()
    for bb, t in body.calls():
        if bb in after and not ((callee_path(t) or '').endswith('Try>::branch') or (callee_path(t) or '').endswith('::from_residual')):
            raise CUnanalysable('the conversion closure does more after the iteration (%s)' % callee_path(t))
    sub = LoopInterp(ctx, inner, [], None, None, label)
    sub.roles = li.roles
    sub.crate = crate
    sub.upvars = upvars
    sub.obl = li.obl

    def one_iteration(assume):
        st = LoopState()
        st.cells = {li.roles['p']: ('p', 0), li.roles['q']: ('q', 0)}
        d = st.dbm
        d.assume_le(('0', 0), ('p', 0))
        d.assume_le(('p', 0), ('q', 0))
        d.assume_le(('q', 0), ('n', 0))
        d.assume_le(('n', 0), (MAXS, 0))
        d.assume_lt(('i', 0), ('n', 0))          # the range yields i only while i < len
        for c in assume:
            apply_candidate(d, c, ('i', 0), ('p', 0), ('q', 0))
        st.L = {1: Opaque('closure env'), 2: Num(('i', 0))}
        sub.exits = []
        work = [(st, 0)]
        steps = 0
        while work:
            s, bb = work.pop()
            while True:
                steps += 1
                if steps > 20000:
                    raise CUnanalysable('path explosion')
                s.trace.append(bb)
                w2 = []
                nxt = sub.block(s, bb, w2)
                for (s2, b2, _f) in w2:
                    work.append((s2, b2))
                if nxt is None:
                    break
                bb = nxt
        out = []
        for kind, s, bb in sub.exits:
            if kind == 'return':
                v = s.L.get(0)
                cont = isinstance(v, En) and v.variant in ('Ok', 'Continue')
                out.append(('back' if cont else 'return', s, bb))
            else:
                out.append((kind, s, bb))
        return out

    assume = list(CANDIDATES)
    sub.quiet = True
    li.quiet = True
    for _ in range(len(CANDIDATES) + 1):
        ex = one_iteration(assume)
        keep = [c for c in assume if all(holds_candidate(s.dbm, c, ('i', 1), s.cells[li.roles['p']], s.cells[li.roles['q']]) for k, s, bb in ex if k == 'back')]
        if keep == assume:
            break
        assume = keep
    sub.quiet = False
    li.quiet = False
    li.discharged('O1', inner.span(), 'iteration handed to try_for_each over 0..len: position facts kept by every iteration: %s' % ', '.join(assume))
    exits = one_iteration(assume)
    # the range is exhausted: the successful way out
    st = LoopState()
    st.cells = {li.roles['p']: ('p', 0), li.roles['q']: ('q', 0)}
    d = st.dbm
    d.assume_le(('0', 0), ('p', 0))
    d.assume_le(('p', 0), ('q', 0))
    d.assume_le(('q', 0), ('n', 0))
    d.assume_le(('n', 0), (MAXS, 0))
    d.assume_le(('n', 0), ('i', 0))
    for c in assume:
        apply_candidate(d, c, ('i', 0), ('p', 0), ('q', 0))
    if d.consistent():
        exits.append(('return', st, bb_d))
    li.loop_in = inner
    return exits


def judge_exits(ctx, body, li, exits, conv, label):
    kinds = defaultdict(int)
    P, Q = li.roles['p'], li.roles['q']
    for kind, st, bb in exits:
        kinds[kind] += 1
        pc, qc = st.cells[P], st.cells[Q]
        where = body.span() + ' bb%d' % bb
        evs = [e for e in st.events]
        tag = '%s@bb%d via %s' % (kind, bb, '>'.join(str(x) for x in st.trace[-6:]))
        ok_regions = st.dbm.eq(pc, st.lu) and st.dbm.eq(qc, st.lt)
        if not ok_regions:
            last = [e for e in evs if e[0] in ('take', 'store', 'set', 'unwind-from', 'assert-fail')][-3:]
            if not st.dbm.eq(pc, st.lu):
                li.fail('O2', ['C09'] if kind not in ('back', 'next') else ['C08', 'C09'], where,
                        'at the %s exit the outputs stored are [0,%s) but the produced counter says [0,%s): %s (recent events: %s)' % (
                            kind, lf_str(st.lu), lf_str(pc),
                            'an output already stored would be leaked by cleanup' if st.dbm.le(pc, st.lu) else 'cleanup would drop a slot that holds no output', last),
                        'exit-produced-%s' % kind)
            if not st.dbm.eq(qc, st.lt):
                li.fail('O2', ['C09'] if kind not in ('back', 'next') else ['C08', 'C09'], where,
                        'at the %s exit the live inputs are [%s,n) but the consumed counter says [%s,n): %s (recent events: %s)' % (
                            kind, lf_str(st.lt), lf_str(qc),
                            'cleanup would drop an element that was already moved out' if st.dbm.le(qc, st.lt) else 'a live input would be leaked', last),
                        'exit-consumed-%s' % kind)
        else:
            li.discharged('O2', where, '%s exit: outputs [0,%s) = produced, inputs [%s,n) = consumed' % (kind, lf_str(st.lu), lf_str(st.lt)))
        if kind == 'next' and not [e for e in evs if e[0] in ('take', 'store', 'convert')]:
            # from one loop to the next with nothing done in between: the counters are unchanged
            if not (st.dbm.eq(pc, ('p', 0)) and st.dbm.eq(qc, ('q', 0))):
                li.fail('O1', ['C08', 'C09'], where, 'between two loops the counters change (produced=%s, consumed=%s) although no element was taken or stored' % (lf_str(pc), lf_str(qc)), 'between-loops')
            else:
                li.discharged('O1', where, 'from one loop to the next: counters and regions unchanged')
        elif kind in ('back', 'next'):
            # O1: invariant inductive; O4: progress
            if not (st.dbm.le(('0', 0), pc) and st.dbm.le(pc, qc) and st.dbm.le(qc, ('n', 0))):
                li.fail('O1', ['C08', 'C09'], where, 'the region invariant 0 <= produced <= consumed <= len is not re-established at the back edge (produced=%s, consumed=%s)' % (lf_str(pc), lf_str(qc)), 'inductive')
            else:
                li.discharged('O1', where, 'invariant re-established: produced=%s, consumed=%s' % (lf_str(pc), lf_str(qc)))
            takes = [e for e in evs if e[0] == 'take']
            stores = [e for e in evs if e[0] == 'store']
            convs = [e for e in evs if e[0] == 'convert']
            if len(takes) != 1 or len(convs) != 1 or len(stores) > 1:
                li.fail('O4', ['C08'], where, 'one iteration takes %d inputs, calls the converter %d times and stores %d outputs' % (len(takes), len(convs), len(stores)), 'once-per-iteration')
            elif not st.dbm.eq(qc, ('q', 1)) or not (st.dbm.eq(pc, ('p', 0)) or st.dbm.eq(pc, ('p', 1))) or st.dbm.eq(pc, ('p', 1)) != (len(stores) == 1):
                li.fail('O4', ['C08'], where, 'one iteration moves consumed to %s and produced to %s with %d stores' % (lf_str(qc), lf_str(pc), len(stores)), 'progress')
            else:
                li.discharged('O4', where, 'iteration: one input taken in order, one converter call, %d output stored, consumed+1' % len(stores))
        if kind == 'return':
            # which return? Ok(()) only when the loop condition failed
            took = any(e[0] == 'take' for e in evs)
            if not took:
                # loop exit: all inputs consumed
                if not st.dbm.eq(qc, ('n', 0)):
                    li.fail('O5', ['C08'], where, 'the closure can return success with consumed=%s which is not provably len' % lf_str(qc), 'all-consumed')
                else:
                    li.discharged('O5', where, 'success return only with consumed = len (every input was handed to the converter)')
    if kinds['back'] + kinds['next'] == 0:
        li.fail('O1', ['C08'], body.span(), 'no path returns to the loop head', 'no-back-edge')
    if kinds['unwind'] == 0:
        li.fail('O2', ['C09'], body.span(), 'no unwind exit found in the loop closure (the converter call must be able to unwind)', 'no-unwind')
    conv['obligations'] += li.obl
    conv['loop'] = {'head': getattr(li, 'loop_head', None), 'exits': dict(kinds), 'roles': {k: v for k, v in li.roles.items()}}
    for o in ('O1', 'O2', 'O3', 'O4'):
        ctx.inst(o, '%s: %d discharged [%s]' % (o, len([x for x in li.obl if x['id'] == o]), label))


def outer_rules(ctx, crate, b, conv, label):
    """O5–O9 over the body of try_convert_vec_in_place."""
    defs = local_defs(b)
    info = {}
    calls = list(b.calls())

    def only(pred, what, props=('C08', 'C09')):
        xs = [(bb, t) for bb, t in calls if pred(callee_path(t) or '', t)]
        if len(xs) != 1:
            raise CUnanalysable('expected exactly one %s, found %d' % (what, len(xs)))
        return xs[0]

    bb_md, t_md = only(lambda p, t: p == 'core::mem::manually_drop::ManuallyDrop::<T>::new', 'ManuallyDrop::new')
    st = trace_value(b, defs, t_md['args'][0])
    if st[-1] != ('param', 1):
        ctx.add(['C08'], 'O5', fmt_span(t_md['span']), 'ManuallyDrop::new does not wrap the `input` parameter', key='md-input')
    md_local = t_md['dest']['l']
    bb_cu, t_cu = only(lambda p, t: p == 'std::panic::catch_unwind', 'catch_unwind')
    # the closure passed to catch_unwind
    clos = None
    for i, j, s in b.statements():
        if s['k'] == 'assign' and s['rv']['k'] == 'aggregate' and s['rv']['ak'] == 'closure':
            c = s['rv']['closure']
            fields = s['rv']['fields']
            if clos is None and b.reachable(i).__contains__(bb_cu) and i <= bb_cu:
                pass
            info.setdefault('closures', []).append((c, fields, i, s))
    # classify closures: the one whose value flows into catch_unwind is the loop closure
    stc = trace_value(b, defs, t_cu['args'][0])
    loop_c = None
    term = stc[-1]
    if term[0] == 'rv' and term[1]['k'] == 'aggregate':
        # AssertUnwindSafe { closure }
        inner = term[1]['fields'][0]
        st2 = trace_value(b, defs, inner)
        if st2[-1][0] == 'rv' and st2[-1][1].get('ak') == 'closure':
            loop_c = st2[-1][1]
    if loop_c is None:
        raise CUnanalysable('cannot find the closure passed to catch_unwind')
    info['loop_closure'] = loop_c['closure']
    # captured fields: &mut usize cells, &mut [T], &C
    cell_fields, slice_field, conv_field = [], None, None
    base_field = len_field = None
    cell_locals = {}
    for k, f in enumerate(loop_c['fields']):
        ty = op_place(f)['ty'] if op_place(f) else None
        s3 = trace_value(b, defs, f)
        root = s3[-1]
        if ty == '&mut usize':
            cell_fields.append(k)
            if root[0] == 'ref' and not root[2]['p']:
                cell_locals[k] = root[2]['l']
        elif ty == '&mut [T]':
            slice_field = k
        elif ty == '&C':
            conv_field = k
        elif ty in ('&*mut T', '&mut *mut T'):
            base_field = k          # the buffer addressed through a raw pointer to its first element
        elif ty == '&usize':
            len_field = k           # … and its length read beforehand
    raw_form = slice_field is None and base_field is not None and len_field is not None
    if len(cell_fields) != 2 or (slice_field is None and not raw_form) or conv_field is None or len(cell_locals) != 2:
        raise CUnanalysable('loop closure captures %s' % [op_place(f)['ty'] if op_place(f) else '?' for f in loop_c['fields']])
    info.update(cell_fields=cell_fields, slice_field=slice_field, conv_field=conv_field, cell_locals=cell_locals, md_local=md_local,
                base_field=base_field if raw_form else None, len_field=len_field if raw_form else None)
    # counters start at 0 and are not written by the outer function afterwards
    for k, l in cell_locals.items():
        ds = defs.get(l, [])
        if len(ds) != 1 or ds[0][0] != 'stmt' or op_int(ds[0][3]['rv'].get('op', {})) != 0:
            ctx.add(['C08', 'C09'], 'O1', b.span(), 'counter local _%d is not initialised exactly once with 0' % l, key='init-%d' % k)
        else:
            ctx.inst('O1', 'counter _%d initialised to 0 once [%s]' % (l, label))
    # the slice the loop works on is the whole buffer of the wrapped input vector:
    # `wrapper.as_mut_slice()` / `&mut wrapper[..]` or `from_raw_parts_mut(wrapper.as_mut_ptr(), wrapper.len())`
    def of_wrapper(op, names):
        cur = op
        for _ in range(10):
            s_ = trace_value(b, defs, cur)[-1]
            if s_[0] == 'ref' and not s_[2]['p']:
                return s_[2]['l'] == md_local
            if s_[0] != 'call':
                return False
            pp = callee_path(s_[1]) or ''
            if names is not None and any(pp.endswith('::' + n) for n in names):
                return of_wrapper(s_[1]['args'][0], None)
            if 'Deref' in pp or pp.endswith('::deref') or pp.endswith('::deref_mut') or pp.endswith('::cast'):
                cur = s_[1]['args'][0]
                continue
            return False
        return False
    def whole_buffer(root):
        if root[0] == 'ref' and root[2]['p'] == ['deref']:
            root = trace_value(b, defs, {'copy': {'l': root[2]['l'], 'p': [], 'ty': None}})[-1]
        if root[0] == 'call':
            rp = callee_path(root[1]) or ''
            if rp.endswith('::as_mut_slice') or 'DerefMut' in rp or rp.endswith('::deref_mut'):
                return of_wrapper(root[1]['args'][0], None)
            if rp.endswith('slice::from_raw_parts_mut') or rp.endswith('slice::raw::from_raw_parts_mut'):
                return of_wrapper(root[1]['args'][0], ['as_mut_ptr']) and of_wrapper(root[1]['args'][1], ['len'])
        return False
    if raw_form:
        # base = <whole buffer>.as_mut_ptr(), len = <whole buffer>.len()
        def through(op, names):
            r_ = trace_value(b, defs, op)[-1]
            if r_[0] == 'ref' and not r_[2]['p']:
                r_ = trace_value(b, defs, {'copy': r_[2]})[-1]
            if r_[0] == 'call' and any((callee_path(r_[1]) or '').endswith('::' + n) for n in names):
                return whole_buffer(trace_value(b, defs, r_[1]['args'][0])[-1]) or of_wrapper(r_[1]['args'][0], None)
            return False
        slice_ok = through(loop_c['fields'][base_field], ['as_mut_ptr']) and through(loop_c['fields'][len_field], ['len'])
        root = ('raw',)
        sl_src = [root]
    else:
        sl_src = trace_value(b, defs, loop_c['fields'][slice_field])
    root = sl_src[-1]
    if root[0] == 'ref' and root[2]['p'] == ['deref']:
        root = trace_value(b, defs, {'copy': {'l': root[2]['l'], 'p': [], 'ty': None}})[-1]
    if not raw_form:
        slice_ok = False
    if root[0] == 'call':
        rp = callee_path(root[1]) or ''
        if rp.endswith('::as_mut_slice') or 'DerefMut' in rp or rp.endswith('::deref_mut'):
            slice_ok = of_wrapper(root[1]['args'][0], None)
        elif rp.endswith('slice::from_raw_parts_mut') or rp.endswith('slice::raw::from_raw_parts_mut'):
            slice_ok = of_wrapper(root[1]['args'][0], ['as_mut_ptr']) and of_wrapper(root[1]['args'][1], ['len'])
    if not slice_ok:
        ctx.add(['C08', 'C09'], 'O5', b.span(), 'the slice the conversion loop works on is not the whole buffer of the wrapped input vector (%s)' % (callee_path(root[1]) if root[0] == 'call' else root[0]), key='slice-origin')
    else:
        ctx.inst('O5', 'the loop works on the whole buffer of the wrapped input [%s]' % label)
    # the vector itself is only taken apart and put back together: an operation that may move, shrink, grow
    # or rebuild the allocation ("shrink_to_fit when few survive", a re-collect) gives up "same allocation
    # and capacity"; one that changes the contents or the length other than set_len gives up the regions
    VEC_OK = ('set_len', 'from_raw_parts', 'from_raw_parts_in', 'into_raw_parts', 'into_raw_parts_with_alloc', 'as_mut_ptr', 'as_ptr',
              'capacity', 'len', 'is_empty', 'as_mut_slice', 'as_slice', 'allocator')
    VEC_TRAITS_OK = ('core::ops::deref::Deref', 'core::ops::deref::DerefMut', 'core::ops::drop::Drop', 'core::convert::AsMut', 'core::convert::AsRef',
                     'core::ops::index::Index', 'core::ops::index::IndexMut', 'core::borrow::Borrow', 'core::borrow::BorrowMut')
    n_vec = 0
    for bb_, t_ in calls:
        cp_ = callee_path(t_) or ''
        m_ = re.match(r'^alloc::vec::Vec::<[^>]*>::([a-z_0-9]+)$', cp_)
        m2_ = re.match(r'^<alloc::vec::Vec<.*> as ([A-Za-z_:0-9]+)(<.*>)?>::([a-z_0-9]+)$', cp_)
        if m_:
            n_vec += 1
            if m_.group(1) not in VEC_OK:
                ctx.add(['C08'], 'O5', fmt_span(t_['span']), '`Vec::%s` is applied to a vector inside the conversion: the result must be the input allocation with its capacity and exactly the produced elements, which only set_len / raw parts / borrows preserve' % m_.group(1), key='vec-op|%s' % m_.group(1))
        elif m2_:
            n_vec += 1
            if m2_.group(1) not in VEC_TRAITS_OK:
                ctx.add(['C08'], 'O5', fmt_span(t_['span']), '`<Vec as %s>::%s` is applied to a vector inside the conversion: the result must be the input allocation with its capacity and exactly the produced elements' % (m2_.group(1).split('::')[-1], m2_.group(3)), key='vec-op|%s' % m2_.group(3))
    ctx.inst('O5', 'no Vec operation other than set_len / raw parts / borrows in the outer function (%d Vec calls) [%s]' % (n_vec, label))
    info['t_cu'] = t_cu
    info['bb_cu'] = bb_cu
    # cleanup closure = the other closure
    others = [c for c, _, _, _ in info.get('closures', []) if c != info['loop_closure']]
    info['cleanup_closure'] = others[0] if len(others) == 1 else None
    info['outer'] = b
    info['defs'] = defs
    return info


def cleanup_rules(ctx, crate, info, conv, label):
    """O5 (success arm), O6 (cleanup ranges), O7 (allocation), O8 (error / payload), O9."""
    b = info['outer']
    defs = info['defs']
    roles = info.get('roles')
    if roles is None:
        return
    p_local = info['cell_locals'][roles['p']]
    q_local = info['cell_locals'][roles['q']]
    md0 = info['md_local']
    calls = list(b.calls())
    disc = lambda oid, where, text: conv['obligations'].append({'id': oid, 'where': where, 'text': text})

    class _MdSet:
        """the wrapper local and the locals it is moved into (`helper(manually_drop)` moves it to a temporary first)"""
        def __eq__(self, l):
            for _ in range(6):
                if l == md0:
                    return True
                if not isinstance(l, int):
                    return False
                ds = [d for d in defs.get(l, []) if not b.blocks[d[1]]['cleanup']]
                if len(ds) == 1 and ds[0][0] == 'stmt' and ds[0][3]['rv']['k'] == 'use' and 'move' in ds[0][3]['rv']['op'] and op_local(ds[0][3]['rv']['op']) is not None:
                    l = op_local(ds[0][3]['rv']['op'])
                    continue
                return False
            return False
        def __ne__(self, l):
            return not self.__eq__(l)
        __hash__ = None
    md = _MdSet()

    # ---- O5 success arm
    set_len = [(bb, t) for bb, t in calls if callee_path(t) == 'alloc::vec::Vec::<T, A>::set_len']
    into_inner = [(bb, t) for bb, t in calls if callee_path(t) == 'core::mem::manually_drop::ManuallyDrop::<T>::into_inner']
    ret_ok = None
    all_ok = []
    for i, j, s in b.statements():
        if s['k'] == 'assign' and s['place'] == {'l': 0, 'p': [], 'ty': s['place']['ty']} and s['rv']['k'] == 'aggregate' and s['rv'].get('variant') == 'Ok' and not b.blocks[i]['cleanup']:
            ret_ok = (i, s)
            all_ok.append((i, s))
    if ret_ok is None:
        raise CUnanalysable('no `Ok(..)` result in the outer function')
    # a success answer produced anywhere else (an early return, a shortcut for some inputs) is not
    # the input allocation
    t_cu_bb = info['bb_cu']
    for i, s in all_ok:
        if i not in b.reachable(t_cu_bb, unwind=False):
            ctx.add(['C08'], 'O5', fmt_span(s.get('span')), 'the function can answer Ok(..) without having gone through the conversion (a result built before / beside catch_unwind): that vector is not the input allocation', key='ok-elsewhere')
    if len(all_ok) > 1:
        later = [x for x in all_ok if x[0] in b.reachable(t_cu_bb, unwind=False)]
        if len(later) > 1:
            raise CUnanalysable('several Ok(..) results after catch_unwind')
        if later:
            ret_ok = later[0]
    st = trace_value(b, defs, ret_ok[1]['rv']['fields'][0])
    chain_ok = False
    if st[-1][0] == 'call' and callee_path(st[-1][1]) == 'core::mem::manually_drop::ManuallyDrop::<T>::into_inner' and any(s[0] == 'cast' and s[1] == 'Transmute' for s in st):
        st2 = trace_value(b, defs, st[-1][1]['args'][0])
        # `move _73`: a multi/param/stmt chain ending at the ManuallyDrop local
        src = op_local(st[-1][1]['args'][0])
        d = single_def(defs, src) if src is not None else None
        if d and d[0] == 'stmt' and op_local(d[3]['rv'].get('op', {})) == md:
            chain_ok = True
        elif src == md:
            chain_ok = True
    def md_call(op, names):
        """operand <- `<names>(&[mut] *wrapper)` (through Deref / casts)?"""
        cur = op
        for _ in range(10):
            s_ = trace_value(b, defs, cur)[-1]
            if s_[0] != 'call':
                return False
            pp = callee_path(s_[1]) or ''
            if any(pp.endswith('::' + n) for n in names):
                r_ = trace_value(b, defs, s_[1]['args'][0])
                root_ = r_[-1]
                # the receiver: (a Deref of) the wrapper local
                for _ in range(4):
                    if root_[0] == 'call' and ('Deref' in (callee_path(root_[1]) or '') or (callee_path(root_[1]) or '').endswith('::deref_mut') or (callee_path(root_[1]) or '').endswith('::deref')):
                        root_ = trace_value(b, defs, root_[1]['args'][0])[-1]
                        continue
                    break
                return root_[0] == 'ref' and not root_[2]['p'] and root_[2]['l'] == md
            if pp.endswith('::cast') or pp.endswith('::cast_mut') or pp.endswith('::cast_const'):
                cur = s_[1]['args'][0]
                continue
            return False
        return False

    def counter_of(op):
        l_ = op_local(op)
        for _ in range(6):
            if l_ is None:
                return None
            if l_ in (p_local, q_local):
                return l_
            d_ = single_def(defs, l_)
            l_ = op_local(d_[3]['rv']['op']) if d_ and d_[0] == 'stmt' and d_[3]['rv']['k'] == 'use' else None
        return None

    raw_ok = None
    if not chain_ok and st[-1][0] == 'call' and (callee_path(st[-1][1]) or '').startswith('alloc::vec::Vec::<T>::from_raw_parts'):
        # the vector was taken apart (pointer, capacity) and is put back together around the same buffer
        c_ = st[-1][1]
        ptr_ok = md_call(c_['args'][0], ['as_mut_ptr', 'as_ptr'])
        cap_ok = md_call(c_['args'][2], ['capacity'])
        cnt = counter_of(c_['args'][1])
        raw_ok = ptr_ok and cap_ok
        if raw_ok:
            chain_ok = True
            disc('O5', fmt_span(c_['span']), 'result = Vec::from_raw_parts(buffer of `input` as *mut U, _, capacity of `input`): same allocation and capacity')
            if cnt != p_local:
                which = 'the consumed counter' if cnt == q_local else 'something else'
                ctx.add(['C08'], 'O5', fmt_span(c_['span']), 'the rebuilt vector gets %s as its length instead of the produced counter: the result would expose slots that hold no output' % which, key='set-len-arg')
            else:
                disc('O5', fmt_span(c_['span']), 'length of the rebuilt vector = produced')
                ctx.inst('O5', 'from_raw_parts(.., produced, ..) [%s]' % label)
    if not chain_ok:
        ctx.add(['C08'], 'O5', fmt_span(ret_ok[1].get('span')), 'the returned Vec<U> is not the transmuted input allocation (ManuallyDrop::into_inner of the wrapper of `input`)', key='same-alloc')
    else:
        disc('O5', fmt_span(ret_ok[1].get('span')), 'result = transmute(ManuallyDrop::into_inner(wrapper of `input`)): same allocation and capacity')
        ctx.inst('O5', 'result is the input allocation [%s]' % label)
    ok_block = ret_ok[0]
    dom = b.dominators(unwind=False)
    sl = [(bb, t) for bb, t in set_len if bb in dom.get(ok_block, set())]
    if len(sl) != 1:
        # not on a straight line: take the calls met on the success paths (each path must have exactly one)
        sp = [pt for pt in tail_paths(b, info['t_cu']['t'], info['t_cu']['dest']['l']) if pt['case'] == 'success']
        per = [[(bb, t) for bb, t, av, _sn in pt['calls'] if callee_path(t) == 'alloc::vec::Vec::<T, A>::set_len'] for pt in sp]
        if sp and all(len(x) == 1 for x in per) and len({id(x[0][1]) for x in per}) == 1:
            sl = per[0]
    if raw_ok:
        pass
    elif len(sl) != 1:
        ctx.add(['C08'], 'O5', b.span(), 'the success arm calls set_len %d times before returning' % len(sl), key='set-len-count')
    else:
        a = trace_value(b, defs, sl[0][1]['args'][1])
        ok = a[-1][0] == 'multi' and a[-1][1] == p_local or (a[-1][0] == 'place' and False)
        # `_99 = copy _79`
        l = op_local(sl[0][1]['args'][1])
        src = l
        for _ in range(6):
            if src in (p_local, q_local) or src is None:
                break
            d = single_def(defs, src)
            if d and d[0] == 'stmt' and d[3]['rv']['k'] == 'use':
                src = op_local(d[3]['rv'].get('op', {}))
            else:
                break
        if src != p_local:
            which = 'the consumed counter' if src == q_local else 'something else'
            ctx.add(['C08'], 'O5', fmt_span(sl[0][1]['span']), 'set_len receives %s instead of the produced counter: the result would expose slots that hold no output' % which, key='set-len-arg')
        else:
            disc('O5', fmt_span(sl[0][1]['span']), 'set_len(produced) on the success arm')
            ctx.inst('O5', 'set_len(produced) [%s]' % label)
    # ---- what happens after catch_unwind returned, path by path (the tail is loop-free): which of the
    # three outcomes the path belongs to is decided by the switches on the discriminants of the
    # result; values moved out of it are followed through re-wrapping and a second match
    res_local = info['t_cu']['dest']['l']
    cleanup_path = info['cleanup_closure']
    paths = tail_paths(b, info['t_cu']['t'], res_local)
    conv['tail_paths'] = len(paths)

    def is_release(t):
        p = callee_path(t)
        if p not in ('core::mem::manually_drop::ManuallyDrop::<T>::drop', 'core::mem::manually_drop::ManuallyDrop::<T>::into_inner', 'core::ptr::drop_in_place', 'core::mem::manually_drop::ManuallyDrop::<T>::take'):
            return False
        s1 = trace_value(b, defs, t['args'][0])
        root = s1[-1]
        tgt = None
        if root[0] == 'ref' and not root[2]['p']:
            tgt = root[2]['l']
        elif root[0] in ('multi',):
            tgt = root[1]
        l0 = op_local(t['args'][0])
        d0 = single_def(defs, l0) if l0 is not None else None
        if d0 and d0[0] == 'stmt' and d0[3]['rv']['k'] == 'use' and op_local(d0[3]['rv']['op']) == md:
            tgt = md
        return tgt == md or l0 == md

    def is_release_raw(t):
        """`drop(Vec::from_raw_parts(buffer, 0, capacity))`: the allocation given back with no element in it"""
        if not (callee_path(t) or '').startswith('alloc::vec::Vec::<T>::from_raw_parts') or t['dest']['p']:
            return False
        if op_int(t['args'][1]) != 0 or not md_call(t['args'][0], ['as_mut_ptr', 'as_ptr']) or not md_call(t['args'][2], ['capacity']):
            return False
        dl = t['dest']['l']
        for blk in b.blocks:
            tt = blk['term']
            if tt['k'] == 'drop' and tt['place']['l'] == dl and not tt['place']['p'] and not blk['cleanup']:
                return True
            if tt['k'] == 'call' and callee_path(tt) == 'core::mem::drop' and tt['args']:
                s_ = trace_value(b, defs, tt['args'][0])[-1]
                if s_[0] == 'call' and s_[1] is t:
                    return True
        return False

    def is_cleanup_call(t):
        p = callee_path(t) or ''
        return p == cleanup_path

    # the cleanup routine: a closure of this function or a function of this crate called on the failure paths
    if cleanup_path is None:
        cands = set()
        for pt in paths:
            if pt['case'] in ('error', 'panic'):
                for (bb, t, av, _sn) in pt['calls']:
                    p = callee_path(t) or ''
                    if p.startswith('truc_runtime::') and p != FN and crate.lookup(p) is not None:
                        cands.add(p)
        if len(cands) == 1:
            cleanup_path = cands.pop()
            info['cleanup_closure'] = cleanup_path
            info['cleanup_is_fn'] = True
    by_case = defaultdict(list)
    for pt in paths:
        by_case[pt['case']].append(pt)
    for case in ('success', 'error', 'panic'):
        if not by_case[case]:
            raise CUnanalysable('no path after catch_unwind handles the %s outcome' % case)
    if by_case.get('unknown'):
        raise CUnanalysable('a path after catch_unwind does not examine the outcome')
    for arm in ('error', 'panic'):
        for pt in by_case[arm]:
            where = '%s path (via bb%s)' % (arm, '>'.join(str(x) for x in pt['trace'][:6]))
            seq = pt['calls']
            i_clean = [i for i, (bb, t, av, _sn) in enumerate(seq) if is_cleanup_call(t)]
            i_len0 = [i for i, (bb, t, av, _sn) in enumerate(seq) if callee_path(t) == 'alloc::vec::Vec::<T, A>::set_len' and op_int(t['args'][1]) == 0]
            i_rel = [i for i, (bb, t, av, _sn) in enumerate(seq) if is_release(t)]
            i_raw = [i for i, (bb, t, av, _sn) in enumerate(seq) if is_release_raw(t)]
            if i_raw and not i_rel:
                i_rel = i_raw
                i_len0 = i_len0 + [i - 0.5 for i in i_raw]     # rebuilt with length 0
            if len(i_clean) != 1:
                ctx.add(['C09'], 'O6', where, 'the %s path calls the cleanup routine %d times' % (arm, len(i_clean)), key='cleanup-call-%s' % arm)
            else:
                disc('O6', fmt_span(seq[i_clean[0]][1]['span']), 'cleanup runs once on the %s path' % arm)
            if not i_rel:
                ctx.add(['C09'], 'O7', where, 'on the %s path the ManuallyDrop<Vec<T>> wrapper is never released: the vector\'s allocation is leaked' % arm, key='alloc-%s' % arm)
            elif len(i_rel) > 1:
                ctx.add(['C09'], 'O7', where, 'on the %s path the vector is released %d times' % (arm, len(i_rel)), key='alloc-twice-%s' % arm)
            else:
                rel_t = seq[i_rel[0]][1]
                if not any(i < i_rel[0] for i in i_len0):
                    ctx.add(['C09'], 'O7', fmt_span(rel_t['span']), 'on the %s path the vector is released without its length being set to 0 first: elements the cleanup already dropped are dropped again' % arm, key='alloc-len-%s' % arm)
                elif i_clean and not i_clean[0] < i_rel[0]:
                    ctx.add(['C09'], 'O7', fmt_span(rel_t['span']), 'on the %s path the vector is released before the cleanup ran' % arm, key='alloc-order-%s' % arm)
                else:
                    disc('O7', fmt_span(rel_t['span']), 'allocation released on the %s path after cleanup and set_len(0)' % arm)
                    ctx.inst('O7', '%s path releases the allocation [%s]' % (arm, label))
    for pt in by_case['success']:
        seq = pt['calls']
        if any(is_cleanup_call(t) for bb, t, av, _sn in seq):
            ctx.add(['C08'], 'O5', 'success path', 'the cleanup routine runs on the success path', key='cleanup-on-success')
        if pt['end'][0] != 'return' or not (isinstance(pt['end'][1], ENode) and pt['end'][1].vname == 'Ok'):
            ctx.add(['C08'], 'O5', 'success path', 'the success path does not return Ok(..)', key='success-return')
    # ---- O8 error value / payload
    ok_err = True
    for pt in by_case['error']:
        end = pt['end']
        v = end[1] if end[0] == 'return' else None
        if not (isinstance(v, ENode) and v.vname == 'Err'):
            ctx.add(['C09'], 'O8', 'error path', 'the error path does not return Err(..)', key='err-return')
            ok_err = False
            continue
        inner = v.fields.get(0)
        if not (isinstance(inner, ENode) and inner.origin == ('res', 'Ok', 0, 'Err', 0)):
            ctx.add(['C09'], 'O8', 'error path', 'the Err value returned is not the one the converter returned (%s)' % (getattr(inner, 'origin', inner),), key='err-value')
            ok_err = False
    if ok_err:
        disc('O8', b.span(), 'Err(e) returns the value moved out of the closure result on every error path')
        ctx.inst('O8', 'error value passed through [%s]' % label)
    ok_pay = True
    for pt in by_case['panic']:
        end = pt['end']
        if end[0] != 'diverge' or callee_path(end[1]) != 'std::panic::resume_unwind':
            how = callee_path(end[1]) if end[0] == 'diverge' else end[0]
            ctx.add(['C09'], 'O8', 'panic path', 'the panic path does not resume unwinding with the caught payload; it ends in: %s (the caller receives a different payload)' % how, key='payload')
            ok_pay = False
            continue
        v = end[2][0] if end[2] else None
        if not (isinstance(v, ENode) and v.origin == ('res', 'Err', 0)):
            ctx.add(['C09'], 'O8', fmt_span(end[1]['span']), 'resume_unwind is not given the caught payload', key='payload-value')
            ok_pay = False
    # … and the payload is re-thrown as it was caught: before resume_unwind it is at most looked at
    PAYLOAD_READS = ('::is', '::downcast_ref', 'Deref>::deref', '::as_ref', '::type_id', 'Debug>::fmt')
    for pt in by_case['panic']:
        for (bb_, tm_, av_, snap_) in pt['calls']:
            if tm_ is pt['end'][1] if pt['end'][0] == 'diverge' else False:
                continue
            if any(isinstance(a_, ENode) and a_.origin and tuple(a_.origin[:3]) == ('res', 'Err', 0) for a_ in av_):
                cp_ = callee_path(tm_) or ''
                if cp_ == 'std::panic::resume_unwind' or cp_.endswith(PAYLOAD_READS):
                    continue
                ctx.add(['C09'], 'O8', fmt_span(tm_['span']), 'the caught panic payload is handed to `%s` before it is re-thrown: the caller may receive an altered payload, not the very one the converter panicked with' % cp_.split('::')[-1], key='payload-touched|%s' % cp_.split('::')[-1])
                ok_pay = False
    if ok_pay:
        disc('O8', b.span(), 'resume_unwind(payload) with the Box moved out of catch_unwind\'s Err on every panic path')
        ctx.inst('O8', 'panic payload passed through [%s]' % label)
    # ---- O9: the conversion loop runs under catch_unwind only
    direct = [t for bb, t in calls if callee_path(t) == info['loop_closure'] or
              ((callee_decl_path(t) or '').startswith('core::ops::function::Fn') and callee_ty_args(t) and callee_ty_args(t)[0] == 'C')]
    if direct:
        ctx.add(['C09'], 'O9', fmt_span(direct[0]['span']), 'the conversion loop (or the converter) is called directly by the outer function, outside catch_unwind: a panic of the converter then unwinds past the cleanup and the release of the allocation', key='outside-catch')
    else:
        disc('O9', b.span(), 'the conversion loop is only ever entered through catch_unwind')
    # ---- O9: converter not called after catch_unwind returned
    after = b.reachable(info['t_cu']['t']) if info['t_cu']['t'] is not None else set()
    bad = []
    for bb, t in calls:
        if bb in after:
            p = callee_decl_path(t) or ''
            if p.startswith('core::ops::function::Fn') and callee_ty_args(t) and callee_ty_args(t)[0] == 'C':
                bad.append(t)
            if callee_path(t) == info['loop_closure']:
                bad.append(t)
    if bad:
        ctx.add(['C09'], 'O9', fmt_span(bad[0]['span']), 'the converter can be called again after catch_unwind returned', key='again')
    else:
        disc('O9', b.span(), 'no call of the converter or of the loop closure is reachable from the return of catch_unwind')
        ctx.inst('O9', 'converter not reachable after catch_unwind [%s]' % label)
    # ---- O6: the cleanup closure's two ranges
    cb = crate.body(cleanup_path) if cleanup_path else None
    if cb is None:
        ctx.add(['C09'], 'O6', FN, 'no cleanup closure found', key='cleanup-missing')
        return
    cleanup_closure_rules(ctx, crate, b, cb, info, roles, conv, label)


ENUM_VARIANTS = {'core::result::Result': ['Ok', 'Err'], 'core::option::Option': ['None', 'Some'],
                 'core::ops::control_flow::ControlFlow': ['Continue', 'Break']}


class ENode:
    """An enum value on one path: known variant (or not yet), payload, and where it came from."""
    def __init__(self, origin=None, kind=None, vname=None, fields=None):
        self.origin = origin
        self.kind = kind
        self.vname = vname
        self.fields = fields if fields is not None else {}
    def clone(self, memo):
        if id(self) in memo:
            return memo[id(self)]
        n = ENode(self.origin, self.kind, self.vname, {})
        memo[id(self)] = n
        for k, v in self.fields.items():
            n.fields[k] = v.clone(memo) if isinstance(v, ENode) else v
        return n
    def __repr__(self):
        return 'ENode(%s,%s,%r)' % (self.origin, self.vname, self.fields)


def enum_kind(ty):
    for k in ENUM_VARIANTS:
        if (ty or '').startswith(k + '<') or ty == k:
            return k
    return None


def tail_paths(b, start, res_local, max_paths=400, roots=None):
    """All normal-edge paths from `start` (the block catch_unwind returns to) to an exit.  Returns dicts
    {case, calls: [(bb, term, arg values)], end: ('return', value) | ('diverge', term, arg values) | (kind,), trace}."""
    if start is None:
        raise CUnanalysable('catch_unwind has no return edge')
    root = ENode(('res',), enum_kind(b.local_ty(res_local)) or 'core::result::Result') if res_local is not None else None
    out = []
    tracked = []      # root nodes created on the way (by `roots`), to snapshot what a path knew at each call

    def fork_env(env):
        memo = {}
        def cl(v):
            if isinstance(v, ENode):
                return v.clone(memo)
            if isinstance(v, tuple) and v and v[0] == 'discr':
                return ('discr', cl(v[1]))
            if isinstance(v, tuple) and v and v[0] == 'isvar':
                return ('isvar', cl(v[1]), v[2], v[3])
            return v
        return {k: cl(v) for k, v in env.items()}

    def child(node, vname, i):
        if node.vname is None:
            node.vname = vname
        if i not in node.fields:
            node.fields[i] = ENode((node.origin + (vname, i)) if node.origin else None)
        return node.fields[i]

    def eval_place(env, pl):
        v = env.get(pl['l'])
        cur_v = None
        for e in pl['p']:
            if e == 'deref':
                continue
            if isinstance(e, dict) and 'downcast' in e:
                cur_v = e.get('name')
                continue
            if isinstance(e, dict) and 'f' in e:
                if isinstance(v, ENode):
                    v = child(v, cur_v or v.vname, e['f'])
                    if isinstance(v, ENode) and v.kind is None:
                        v.kind = enum_kind(e.get('ty'))
                    cur_v = None
                    continue
                return None
            return None
        return v

    def eval_op(env, op):
        pl = op_place(op)
        if pl is not None:
            return eval_place(env, pl)
        if 'const' in op:
            return ('const', op['const'].get('int'), op['const'])
        return None

    work = [(start, ({res_local: root} if res_local is not None else {}), [], [], frozenset())]
    while work:
        bb, env, calls, trace, seen = work.pop()
        while True:
            if bb in seen:
                raise CUnanalysable('loop after catch_unwind (bb%d)' % bb)
            seen = seen | {bb}
            trace = trace + [bb]
            blk = b.blocks[bb]
            for st in blk['stmts']:
                if st['k'] != 'assign':
                    continue
                pl = st['place']
                rv = st['rv']
                val = None
                if rv['k'] == 'use':
                    val = eval_op(env, rv['op'])
                elif rv['k'] in ('ref', 'rawptr'):
                    val = eval_place(env, rv['place'])
                elif rv['k'] == 'copy_for_deref':
                    val = eval_place(env, rv['place'])
                elif rv['k'] == 'discr':
                    n = eval_place(env, rv['place'])
                    val = ('discr', n) if isinstance(n, ENode) else None
                elif rv['k'] == 'aggregate' and rv.get('ak') == 'adt' and rv.get('adt') in ENUM_VARIANTS:
                    val = ENode(None, rv['adt'], rv.get('variant'), {i: eval_op(env, f) for i, f in enumerate(rv['fields'])})
                elif rv['k'] == 'cast':
                    val = eval_op(env, rv['op'])
                elif rv['k'] == 'un' and rv['op'] == 'Not':
                    o_ = eval_op(env, rv['o'])
                    if isinstance(o_, tuple) and o_ and o_[0] == 'isvar':
                        val = ('isvar', o_[1], o_[2], not o_[3])
                    elif isinstance(o_, tuple) and o_ and o_[0] == 'const' and o_[1] in (0, 1) and b.local_ty(pl['l']) == 'bool':
                        val = ('const', 1 - o_[1], None)
                    else:
                        val = None
                if not pl['p']:
                    env[pl['l']] = val
            t = blk['term']
            k = t['k']
            if k == 'goto':
                bb = t['t']
                continue
            if k in ('drop', 'assert'):
                bb = t['t']
                continue
            if k == 'call':
                av = [eval_op(env, a) for a in t['args']]
                snap = {}
                for v_ in env.values():
                    if isinstance(v_, ENode) and v_.origin and len(v_.origin) == 1:
                        snap[v_.origin] = v_.vname
                    if isinstance(v_, tuple) and v_ and v_[0] == 'discr' and isinstance(v_[1], ENode) and v_[1].origin and len(v_[1].origin) == 1:
                        snap[v_[1].origin] = v_[1].vname
                calls = calls + [(bb, t, av, snap)]
                if t['t'] is None:
                    out.append({'env': env, 'calls': calls, 'end': ('diverge', t, av), 'trace': trace})
                    break
                p = callee_path(t) or ''
                if not t['dest']['p']:
                    org = roots(t) if roots is not None else None
                    # values handed through identity-like calls
                    if org is not None:
                        env[t['dest']['l']] = ENode(org, enum_kind(b.local_ty(t['dest']['l'])))
                    elif p in ('core::mem::manually_drop::ManuallyDrop::<T>::into_inner',) or p.endswith('::into') or p.endswith('From<T>>::from'):
                        env[t['dest']['l']] = av[0] if av else None
                    elif p in ('core::result::Result::<T, E>::is_ok', 'core::result::Result::<T, E>::is_err', 'core::option::Option::<T>::is_some', 'core::option::Option::<T>::is_none') and av and isinstance(av[0], ENode):
                        # a boolean that says which variant the value has: a later switch on it teaches the path
                        env[t['dest']['l']] = ('isvar', av[0], {'is_ok': 'Ok', 'is_err': 'Err', 'is_some': 'Some', 'is_none': 'None'}[p.split('::')[-1]], True)
                    elif p.endswith('as core::ops::try_trait::Try>::branch') and av and isinstance(av[0], ENode) and av[0].vname in ('Ok', 'Err', 'Some', 'None'):
                        # `x?`: Continue(payload) for Ok / Some, Break(residual) otherwise
                        x_ = av[0]
                        if x_.vname in ('Ok', 'Some'):
                            env[t['dest']['l']] = ENode(None, 'core::ops::control_flow::ControlFlow', 'Continue', {0: x_.fields.get(0)})
                        else:
                            env[t['dest']['l']] = ENode(None, 'core::ops::control_flow::ControlFlow', 'Break', {0: x_})
                    else:
                        env[t['dest']['l']] = None
                bb = t['t']
                continue
            if k == 'switch':
                v = eval_op(env, t['d'])
                if isinstance(v, tuple) and v[0] == 'discr' and isinstance(v[1], ENode):
                    node = v[1]
                    names = ENUM_VARIANTS.get(node.kind or '', [])
                    if node.vname is not None and node.vname in names:
                        idx = names.index(node.vname)
                        bb = dict((a, c) for a, c in t['targets']).get(idx, t['otherwise'])
                        continue
                    if names:
                        listed = [a for a, _ in t['targets']]
                        alts = [(a, c) for a, c in t['targets']]
                        rest = [i for i in range(len(names)) if i not in listed]
                        if len(rest) == 1 and b.blocks[t['otherwise']]['term']['k'] != 'unreachable':
                            alts.append((rest[0], t['otherwise']))
                        # fork: the node is shared through env copies by position, so re-evaluate per fork
                        for a, c in alts:
                            e2 = fork_env(env)
                            v2 = eval_op(e2, t['d'])
                            if a < len(names):
                                v2[1].vname = names[a]
                            work.append((c, e2, list(calls), list(trace), seen))
                        break
                if isinstance(v, tuple) and v[0] == 'const' and v[1] is not None:
                    bb = dict((a, c) for a, c in t['targets']).get(v[1], t['otherwise'])
                    continue
                if isinstance(v, tuple) and v[0] == 'isvar' and isinstance(v[1], ENode):
                    node, vn, pol = v[1], v[2], v[3]
                    other = {'Ok': 'Err', 'Err': 'Ok', 'Some': 'None', 'None': 'Some'}[vn]
                    tg = dict((a, c) for a, c in t['targets'])
                    true_bb = tg.get(1, t['otherwise'])
                    false_bb = tg.get(0, t['otherwise'])
                    if node.vname is not None:
                        truth = (node.vname == vn) == pol
                        bb = true_bb if truth else false_bb
                        continue
                    for truth, c in ((True, true_bb), (False, false_bb)):
                        e2 = fork_env(env)
                        v2 = eval_op(e2, t['d'])
                        v2[1].vname = vn if truth == pol else other
                        work.append((c, e2, list(calls), list(trace), seen))
                    break
                for a, c in t['targets']:
                    work.append((c, fork_env(env), list(calls), list(trace), seen))
                bb = t['otherwise']
                continue
            if k == 'return':
                out.append({'env': env, 'calls': calls, 'end': ('return', env.get(0)), 'trace': trace})
                break
            out.append({'env': env, 'calls': calls, 'end': (k,), 'trace': trace})
            break
        if len(out) > max_paths:
            raise CUnanalysable('too many paths after catch_unwind')
    # classify by what the path learnt about the result
    res = []
    for pt in out:
        if pt['end'][0] == 'unreachable':
            continue
        r = pt['env'].get(res_local) if res_local is not None else None
        case = 'unknown'
        # the root node of this path: find through any value whose origin is ('res',)
        node = r if isinstance(r, ENode) and r.origin == ('res',) else None
        if node is None:
            case = 'unknown'
        elif node.vname == 'Err':
            case = 'panic'
        elif node.vname == 'Ok':
            inner = node.fields.get(0)
            if isinstance(inner, ENode) and inner.vname == 'Err':
                case = 'error'
            elif isinstance(inner, ENode) and inner.vname == 'Ok':
                case = 'success'
        pt['case'] = case
        res.append(pt)
    return res


def classify_arms(b, res_local, bb_cu):
    """Blocks of the Ok(Ok), Ok(Err) and Err arms of `match maybe_panic`."""
    arms = {}
    # first switch on discriminant(res)
    def discr_switch(bb_set, place_pred):
        for bb in sorted(bb_set):
            blk = b.blocks[bb]
            t = blk['term']
            if t['k'] != 'switch' or blk['cleanup']:
                continue
            for s in blk['stmts']:
                if s['k'] == 'assign' and s['rv']['k'] == 'discr' and place_pred(s['rv']['place']) and op_local(t['d']) == s['place']['l']:
                    return bb, t
        return None
    reach = b.reachable(bb_cu, unwind=False)
    s1 = discr_switch(reach, lambda pl: pl['l'] == res_local and not pl['p'])
    if s1 is None:
        return None
    bb1, t1 = s1
    tg = dict((v, bb) for v, bb in t1['targets'])
    ok_entry, err_entry = tg.get(0), tg.get(1, t1['otherwise'])
    s2 = discr_switch(b.reachable(ok_entry, unwind=False), lambda pl: pl['l'] == res_local and len(pl['p']) == 2)
    if s2 is None:
        return None
    bb2, t2 = s2
    tg2 = dict((v, bb) for v, bb in t2['targets'])
    okok, okerr = tg2.get(0), tg2.get(1, t2['otherwise'])
    # blocks of an arm = reachable from its entry (normal edges) up to the join (blocks also reachable from other arms)
    r_okok = b.reachable(okok, unwind=False)
    r_okerr = b.reachable(okerr, unwind=False)
    r_err = b.reachable(err_entry, unwind=False)
    arms['success'] = {'entry': okok, 'blocks': r_okok - r_okerr - r_err}
    arms['error'] = {'entry': okerr, 'blocks': r_okerr - r_okok - r_err}
    arms['panic'] = {'entry': err_entry, 'blocks': r_err - r_okok - r_okerr}
    return arms


def cleanup_closure_rules(ctx, crate, outer, cb, info, roles, conv, label):
    """O6: iterates Index<Range>{0, produced} dropping each as U and {consumed, len} dropping each as T."""
    defs = local_defs(cb)
    param_role = {}
    if info.get('cleanup_is_fn'):
        # a function: its parameters get their roles from the arguments at the call sites (all agree)
        odefs0 = info['defs']
        sites = [t for bb, t in outer.calls() if callee_path(t) == info['cleanup_closure']]
        for t in sites:
            roles_here = {}
            for i, a in enumerate(t['args']):
                l = op_local(a)
                for _ in range(6):
                    if l is None or l in info['cell_locals'].values():
                        break
                    d = single_def(odefs0, l)
                    if d and d[0] == 'stmt' and d[3]['rv']['k'] == 'use':
                        l = op_local(d[3]['rv']['op'])
                    else:
                        break
                if l == info['cell_locals'][roles['p']]:
                    roles_here[i + 1] = 'p'
                elif l == info['cell_locals'][roles['q']]:
                    roles_here[i + 1] = 'q'
                elif (cb.local_ty(i + 1) or '').replace('mut ', '') == '&[T]':
                    roles_here[i + 1] = 'slice'
            if param_role and roles_here != param_role:
                ctx.add(['C09'], 'O6', fmt_span(t['span']), 'the cleanup routine is called with different arguments on different paths', key='cleanup-args')
            param_role = roles_here
    # which captured field is which counter: match capture operands in the outer aggregate
    cap = None
    for c, fields, bb, s in info.get('closures', []):
        if c == info['cleanup_closure']:
            cap = fields
    odefs = info['defs']
    field_role = {}
    for k, f in enumerate(cap or []):
        st = trace_value(outer, odefs, f)
        root = st[-1]
        if root[0] == 'ref' and not root[2]['p']:
            l = root[2]['l']
            if l == info['cell_locals'][roles['p']]:
                field_role[k] = 'p'
            elif l == info['cell_locals'][roles['q']]:
                field_role[k] = 'q'
        ty = op_place(f)['ty'] if op_place(f) else ''
        if ty == '&[T]':
            field_role[k] = 'slice'

    def describe(op):
        """operand of Range -> '0' | 'p' | 'q' | 'n' | '?'"""
        iv = op_int(op)
        if iv is not None:
            return str(iv)
        st = trace_value(cb, defs, op)
        t = st[-1]
        if t[0] == 'param' and t[1] in param_role:
            return param_role[t[1]]
        if t[0] == 'call' and callee_path(t[1]) == 'core::slice::<impl [T]>::len':
            return 'n'
        if t[0] == 'place' and t[1]['p'] == ['deref']:
            st2 = trace_value(cb, defs, {'copy': {'l': t[1]['l'], 'p': [], 'ty': None}})
            t2 = st2[-1]
            if t2[0] == 'place' and len(t2[1]['p']) == 2 and 'f' in t2[1]['p'][1]:
                return field_role.get(t2[1]['p'][1]['f'], '?')
        if t[0] == 'rv' and t[1]['k'] == 'bin':
            return '%s(%s,%s)' % (t[1]['op'], describe(t[1]['l']), describe(t[1]['r']))
        if t[0] == 'rv' and t[1]['k'] == 'un' and t[1]['op'] == 'PtrMetadata':
            return 'n'
        return '?'

    ranges = []
    for bb, t in cb.calls():
        p = callee_path(t)
        if p and p.endswith('::index') and 'Index' in (callee_decl_path(t) or ''):
            st = trace_value(cb, defs, t['args'][1])
            rv = st[-1]
            if rv[0] == 'rv' and rv[1]['k'] == 'aggregate' and rv[1].get('adt') == 'core::ops::range::Range':
                lo, hi = rv[1]['fields']
                ranges.append((bb, describe(lo), describe(hi), t))
            elif rv[0] == 'rv' and rv[1]['k'] == 'aggregate' and rv[1].get('adt') == 'core::ops::range::RangeTo':
                ranges.append((bb, '0', describe(rv[1]['fields'][0]), t))
            elif rv[0] == 'rv' and rv[1]['k'] == 'aggregate' and rv[1].get('adt') == 'core::ops::range::RangeFrom':
                ranges.append((bb, describe(rv[1]['fields'][0]), 'n', t))
            elif (rv[0] == 'rv' and rv[1]['k'] == 'aggregate' and rv[1].get('adt') == 'core::ops::range::RangeFull') or (rv[0] == 'const' and 'RangeFull' in str(rv[1].get('ty'))):
                ranges.append((bb, '0', 'n', t))
            else:
                ranges.append((bb, '?', '?', t))
    # per range: the loop that follows assume_init::<X> and drops it. Pair by dominance order.
    READS = ('core::ptr::read', 'core::ptr::const_ptr::<impl *const T>::read', 'core::ptr::mut_ptr::<impl *mut T>::read',
             'core::ptr::read_unaligned', 'core::ptr::const_ptr::<impl *const T>::read_unaligned')

    def element_reads(body):
        """(block, type read, dropped?, term) for every value brought back out of the slice in `body`."""
        out = []
        for bb, t in body.calls():
            p = callee_path(t)
            X = None
            if p == 'core::mem::maybe_uninit::MaybeUninit::<T>::assume_init':
                X = callee_ty_args(t)[-1]
            elif p in READS:
                X = callee_ty_args(t)[-1]
            if X is None:
                continue
            dest = t['dest']['l']
            dropped = any(blk['term']['k'] == 'drop' and blk['term']['place']['l'] == dest and not blk['term']['place']['p'] for blk in body.blocks)
            if not dropped:
                # handed to mem::drop (possibly after a move)
                ddefs = local_defs(body)
                for bb2, t2 in body.calls():
                    if callee_path(t2) == 'core::mem::drop' and t2['args']:
                        s_ = trace_value(body, ddefs, t2['args'][0])[-1]
                        if s_[0] == 'call' and s_[1] is t:
                            dropped = True
            out.append((bb, X, dropped, t))
        return out

    inits = element_reads(cb)
    dom = cb.dominators(unwind=False)
    got = []
    # sweeps written as `<subslice>.iter().for_each(|element| …)`: the closure handles one element
    for_each = {}
    for bb, t in cb.calls():
        if (callee_path(t, resolved=False) or '').endswith('Iterator::for_each') and len(t['args']) == 2:
            cl = trace_value(cb, defs, t['args'][1])[-1]
            if cl[0] == 'rv' and cl[1].get('ak') == 'closure':
                fb = crate.lookup(cl[1]['closure'])
                if fb is not None:
                    for_each[bb] = (t, fb)
    for (bb, lo, hi, t) in ranges:
        mine_fe = [(fbb, ft, fb) for fbb, (ft, fb) in for_each.items() if bb in dom.get(fbb, set()) and
                   not any(r[0] != bb and bb in dom.get(r[0], set()) and r[0] in dom.get(fbb, set()) for r in ranges)]
        for fbb, ft, fb in mine_fe:
            # the iterator consumed is the one over this subslice
            src = trace_value(cb, defs, ft['args'][0])[-1]
            sub_ok = False
            for _ in range(6):
                if src[0] == 'call' and src[1] is t:
                    sub_ok = True
                    break
                if src[0] == 'call' and src[1]['args']:
                    src = trace_value(cb, defs, src[1]['args'][0])[-1]
                    continue
                break
            rds = element_reads(fb)
            if not sub_ok or len(rds) != 1:
                ctx.add(['C09'], 'O6', fmt_span(ft['span']), 'cannot tell what this sweep does with each element (%d reads in the closure)' % len(rds), key='cleanup-foreach')
                continue
            got.append((lo, hi, rds[0][1], rds[0][2]))
            if not rds[0][2]:
                ctx.add(['C09'], 'O6', fmt_span(rds[0][3]['span']), 'cleanup brings an element back as %s but never drops it' % rds[0][1], key='cleanup-nodrop-%s' % rds[0][1])
    for (bb, lo, hi, t) in ranges:
        # assume_inits dominated by this range and not by a later range
        later = [r[0] for r in ranges if r[0] != bb and bb in dom.get(r[0], set())]
        mine = [i for i in inits if bb in dom.get(i[0], set()) and not any(l in dom.get(i[0], set()) for l in later)]
        for i in mine:
            got.append((lo, hi, i[1], i[2]))
            if not i[2]:
                ctx.add(['C09'], 'O6', fmt_span(i[3]['span']), 'cleanup brings an element back as %s but never drops it' % i[1], key='cleanup-nodrop-%s' % i[1])
    # every path through the cleanup closure runs both sweeps to exhaustion: each return is
    # dominated by both range constructions, and a sweep loop is left only when its iterator is empty
    rets = [i for i, blk in enumerate(cb.blocks) if blk['term']['k'] == 'return' and not blk['cleanup']]
    for (bb, lo, hi, t) in ranges:
        for r in rets:
            if bb not in dom.get(r, set()):
                ctx.add(['C09'], 'O6', fmt_span(t['span']), 'the cleanup closure can return (bb%d) without having swept [%s,%s): elements of that region are not dropped on some path' % (r, lo, hi), key='cleanup-skipped-%s' % lo)
    succ = {i: cb.successors(i, unwind=False) for i in range(len(cb.blocks))}
    for bb, t in cb.calls():
        if (callee_path(t) or '').endswith('Iterator>::next') and 'slice::iter::Iter' in (callee_path(t) or ''):
            head = bb
            # loop body = blocks that can reach the head again
            body = set()
            for x in cb.reachable(head, unwind=False):
                if head in cb.reachable(x, unwind=False) and x != head or x == head:
                    if head in [y for y in cb.reachable(x, unwind=False)]:
                        body.add(x)
            nxt = t['t']
            for x in sorted(body):
                for s_ in succ[x]:
                    if s_ not in body and not cb.blocks[s_]['term']['k'] == 'unreachable':
                        # the only legal exit: the `None` edge of the switch on next()'s result
                        blk = cb.blocks[x]
                        ok = x == nxt and blk['term']['k'] == 'switch' and dict(blk['term']['targets']).get(0) == s_
                        if not ok:
                            ctx.add(['C09'], 'O6', cb.span(), 'a cleanup sweep can be left early (bb%d -> bb%d) before its iterator is exhausted' % (x, s_), key='cleanup-early-exit')
    want = {('0', 'p', 'U', True), ('q', 'n', 'T', True)}
    if set(got) != want:
        ctx.add(['C09'], 'O6', cb.span(), 'cleanup drops %s; the region invariant requires exactly [0,produced) as U and [consumed,len) as T' % sorted('[%s,%s) as %s' % g[:3] for g in got), key='cleanup-ranges')
    else:
        conv['obligations'].append({'id': 'O6', 'where': cb.span(), 'text': 'cleanup drops [0,produced) as U and [consumed,len) as T, each element once'})
        ctx.inst('O6', 'cleanup ranges [0,p) as U, [q,n) as T [%s]' % label)


# ---------------------------------------------------------------------------
# A-GUARD (C10)

def guard_rule(ctx, crate, b, label):
    defs = local_defs(b)

    def promoted_query(op):
        """&usize operand -> ('size_of'|'align_of', type arg) through promoteds."""
        st = trace_value(b, defs, op)
        t = st[-1]
        if t[0] == 'place':
            # copy (*_9) where _9 = copy _4.0 (tuple of refs)
            pl = t[1]
            if pl['p'] == ['deref']:
                return promoted_query({'copy': {'l': pl['l'], 'p': [], 'ty': None}})
            if len(pl['p']) == 1 and 'f' in pl['p'][0]:
                d = single_def(defs, pl['l'])
                if d and d[0] == 'stmt' and d[3]['rv']['k'] == 'aggregate':
                    return promoted_query(d[3]['rv']['fields'][pl['p'][0]['f']])
            return None
        if t[0] == 'const' and 'promoted' in t[1]:
            pb = crate.body(b.path, promoted=t[1]['promoted'])
            if pb is None:
                return None
            for bb, c in pb.calls():
                p = callee_path(c)
                if p in ('core::mem::size_of', 'core::mem::align_of'):
                    return (p.split('::')[-1], callee_ty_args(c)[0])
            return None
        if t[0] == 'call':
            p = callee_path(t[1])
            if p in ('core::mem::size_of', 'core::mem::align_of'):
                return (p.split('::')[-1], callee_ty_args(t[1])[0])
        if t[0] == 'ref':
            # &_x where _x = size_of::<T>()
            pl = t[2]
            if not pl['p']:
                return promoted_query({'copy': pl})
        return None

    def find_guards(bx):
        """switches of body bx on size_of::<A>() == size_of::<B>() (resp. align_of): kind -> (bb, equal edge, unequal edge, {A,B})"""
        dx = local_defs(bx)

        def pq(op, depth=0):
            st = trace_value(bx, dx, op)
            tt = st[-1]
            if depth > 8:
                return None
            if tt[0] == 'place':
                pl = tt[1]
                if pl['p'] == ['deref']:
                    return pq({'copy': {'l': pl['l'], 'p': [], 'ty': None}}, depth + 1)
                if len(pl['p']) == 1 and 'f' in pl['p'][0]:
                    d = single_def(dx, pl['l'])
                    if d and d[0] == 'stmt' and d[3]['rv']['k'] == 'aggregate':
                        return pq(d[3]['rv']['fields'][pl['p'][0]['f']], depth + 1)
                return None
            if tt[0] == 'const' and 'promoted' in tt[1]:
                pb = crate.body(bx.path, promoted=tt[1]['promoted'])
                if pb is None:
                    return None
                for _, c in pb.calls():
                    pth = callee_path(c)
                    if pth in ('core::mem::size_of', 'core::mem::align_of'):
                        return (pth.split('::')[-1], callee_ty_args(c)[0])
                return None
            if tt[0] == 'call':
                pth = callee_path(tt[1])
                if pth in ('core::mem::size_of', 'core::mem::align_of'):
                    return (pth.split('::')[-1], callee_ty_args(tt[1])[0])
            if tt[0] == 'ref' and not tt[2]['p']:
                return pq({'copy': tt[2]}, depth + 1)
            return None
        out = {}
        for bb, blk in enumerate(bx.blocks):
            tt = blk['term']
            if tt['k'] != 'switch' or blk['cleanup']:
                continue
            l = op_local(tt['d'])
            d = single_def(dx, l) if l is not None else None
            if not d or d[0] != 'stmt' or d[3]['rv']['k'] != 'bin' or d[3]['rv']['op'] not in ('Eq', 'Ne'):
                continue
            qa, qb = pq(d[3]['rv']['l']), pq(d[3]['rv']['r'])
            if not qa or not qb or qa[0] != qb[0] or qa[1] == qb[1]:
                continue
            tg = dict(tt['targets'])
            if 0 not in tg:
                continue
            false_edge, true_edge = tg[0], tt['otherwise']
            eq_is_true = d[3]['rv']['op'] == 'Eq'
            out[qa[0]] = (bb, true_edge if eq_is_true else false_edge, false_edge if eq_is_true else true_edge, {qa[1], qb[1]})
        return out

    guards = {}
    for kind, g in find_guards(b).items():
        if g[3] == {'T', 'U'}:
            guards[kind] = g[:3]
            ctx.inst('A-GUARD', '%s::<T>() == %s::<U>() tested at bb%d [%s]' % (kind, kind, g[0], label))
    # a guard may live in a helper of the crate called with (T, U): the call then stands for the test
    helper_guards = {}
    for bb, tcall in b.calls():
        hp = callee_path(tcall)
        hb = crate.lookup(hp) if hp and hp.startswith('truc_runtime::') and hp != FN else None
        if hb is None or b.blocks[bb]['cleanup']:
            continue
        targs = callee_ty_args(tcall)
        hg = find_guards(hb)
        for kind, g in hg.items():
            # the helper's own generic parameters, instantiated here with T and U
            fn = crate.fns.get(hp, {})
            gens = fn.get('generics') or []
            inst = {gens[i]: targs[i] for i in range(min(len(gens), len(targs)))}
            if {inst.get(x, x) for x in g[3]} != {'T', 'U'}:
                continue
            # inside the helper a normal return is impossible once the equal edge is removed
            reach = hb.reachable(0, unwind=True, removed_edges=[(g[0], g[1])])
            if any(hb.blocks[x]['term']['k'] == 'return' for x in reach):
                continue
            if kind not in guards and tcall['t'] is not None:
                helper_guards[kind] = (bb, tcall['t'], tcall['unwind'] if isinstance(tcall['unwind'], int) else None)
                ctx.inst('A-GUARD', '%s::<T>() == %s::<U>() tested in helper %s called at bb%d [%s]' % (kind, kind, hp.split('::')[-1], bb, label))
    for kind, (cbb, ok_edge, unwind_bb) in helper_guards.items():
        guards[kind] = (cbb, ok_edge, unwind_bb)
    for kind in ('size_of', 'align_of'):
        if kind not in guards:
            ctx.add(['C10'], 'A-GUARD', FN, 'no test of %s::<T>() against %s::<U>() guards the conversion%s' % (kind, kind, ' (with debug assertions off)' if 'off' in label else ''), key='missing-%s-%s' % (kind, label))
    # sensitive operations: taking ownership of the buffer, any unsafe element access, the closure, catch_unwind
    sensitive = []
    for bb, t in b.calls():
        p = callee_path(t) or ''
        if p in ('core::mem::manually_drop::ManuallyDrop::<T>::new', 'std::panic::catch_unwind', 'alloc::vec::Vec::<T, A>::as_mut_slice',
                 'alloc::vec::Vec::<T, A>::set_len', 'alloc::vec::Vec::<T, A>::as_mut_ptr', 'alloc::vec::Vec::<T, A>::as_ptr') or 'from_raw_parts' in p:
            sensitive.append((bb, p, fmt_span(t['span'])))
    for i, j, s in b.statements():
        if s['k'] == 'assign' and s['rv']['k'] == 'aggregate' and s['rv']['ak'] == 'closure':
            sensitive.append((i, 'closure construction', fmt_span(s.get('span'))))
        if s['k'] == 'assign' and s['rv']['k'] == 'cast' and s['rv']['ck'] == 'Transmute' and not b.blocks[i]['cleanup']:
            sensitive.append((i, 'transmute', fmt_span(s.get('span'))))
    if not any(p == 'core::mem::manually_drop::ManuallyDrop::<T>::new' for _, p, _ in sensitive):
        raise CUnanalysable('no ManuallyDrop::new in the conversion function')
    for kind, (gbb, eq_edge, ne_edge) in guards.items():
        reach = b.reachable(0, unwind=True, removed_edges=[(gbb, eq_edge)])
        for bb, what, where in sensitive:
            if bb in reach:
                ctx.add(['C10'], 'A-GUARD', where, '%s is reachable without passing the %s equality test' % (what, kind), key='bypass-%s-%s' % (kind, what))
        # the unequal edge only panics, and the input vector is dropped on the way out
        if ne_edge is None:
            ctx.add(['C10'], 'A-GUARD', FN, 'when the %s test fails (inside a helper) the unwinding skips this function\'s cleanup: the input vector is not dropped' % kind, key='ne-drop-%s' % kind)
            continue
        ne_reach = b.reachable(ne_edge, unwind=True, removed_blocks=[gbb])
        returns = [x for x in ne_reach if b.blocks[x]['term']['k'] == 'return']
        if returns:
            ctx.add(['C10'], 'A-GUARD', FN, 'the failing %s test can reach a normal return' % kind, key='ne-returns-%s' % kind)
        for bb, what, where in sensitive:
            if bb in ne_reach:
                ctx.add(['C10'], 'A-GUARD', where, '%s is reachable after the %s test failed' % (what, kind), key='ne-reaches-%s-%s' % (kind, what))
        dropped = False
        for x in ne_reach:
            t = b.blocks[x]['term']
            if t['k'] == 'drop' and t['place']['l'] == 1 and not t['place']['p']:
                dropped = True
        if not dropped:
            ctx.add(['C10'], 'A-GUARD', FN, 'when the %s test fails the input vector is not dropped on the unwind path' % kind, key='ne-drop-%s' % kind)
    # A-DELEG: the infallible wrapper only delegates
    w = crate.body(WRAP)
    if w is None:
        ctx.add(['C10'], 'A-DELEG', WRAP, 'function not found (anchor lost)', key='anchor')
    else:
        bad = []
        delegates = 0
        for bb, t in w.calls():
            p = callee_path(t) or ''
            if p == FN:
                delegates += 1
            elif 'ManuallyDrop' in p or 'set_len' in p or p.startswith('core::ptr::') or 'transmute' in p or 'as_mut_slice' in p:
                bad.append(p)
            elif re.match(r'^alloc::vec::Vec::<[^>]*>::[a-z_0-9]+$', p) or re.match(r'^<alloc::vec::Vec<.*> as (?!core::ops::drop::Drop)[A-Za-z_:0-9]+(<.*>)?>::[a-z_0-9]+$', p):
                bad.append(p)      # the wrapper hands the vectors on as they are
        for i, j, s in w.statements():
            if s['k'] == 'assign' and s['rv']['k'] == 'cast' and s['rv']['ck'] == 'Transmute':
                bad.append('transmute')
        if delegates != 1 or bad:
            ctx.add(['C10', 'C08'], 'A-DELEG', WRAP, 'convert_vec_in_place does not simply delegate to the guarded function (delegations: %d, raw operations: %s)' % (delegates, bad), key='deleg')
        else:
            ctx.inst('A-DELEG', 'convert_vec_in_place -> try_convert_vec_in_place [%s]' % label)
            # the input vector and the converter are passed through: input = parameter 1, the adapter
            # closure hands (t, u) on unchanged and wraps the answer in Ok; the result is unwrap()ed
            wd = local_defs(w)
            call = [t for bb, t in w.calls() if callee_path(t) == FN][0]
            a0 = trace_value(w, wd, call['args'][0])[-1]
            ok = a0 == ('param', 1)
            cl = trace_value(w, wd, call['args'][1])[-1]
            ok = ok and cl[0] == 'rv' and cl[1].get('ak') == 'closure'
            res = trace_value(w, wd, {'copy': {'l': 0, 'p': [], 'ty': None}})[-1]
            # the answer: the Ok payload of the delegate's result, taken out by unwrap()/expect()/into_ok()
            # or by a match (`Ok(output) => output`)
            if ok and res[0] == "call" and re.match(r'core::result::Result::<T, E>::(unwrap|expect|into_ok|unwrap_unchecked)', callee_path(res[1]) or ''):
                r0 = trace_value(w, wd, res[1]['args'][0])[-1]
                ok = r0[0] == 'call' and r0[1] is call
            elif ok and res[0] == 'place' and [e.get('name') for e in res[1]['p'] if isinstance(e, dict) and 'downcast' in e] == ['Ok'] \
                    and [e['f'] for e in res[1]['p'] if isinstance(e, dict) and 'f' in e] == [0]:
                r0 = trace_value(w, wd, {'copy': {'l': res[1]['l'], 'p': [], 'ty': None}})[-1]
                ok = r0[0] == 'call' and r0[1] is call
            else:
                ok = False
            adapter_ok = False
            if ok:
                ab = crate.body(cl[1]['closure'])
                if ab is not None:
                    ad = local_defs(ab)
                    calls = [t for bb, t in ab.calls() if (callee_decl_path(t) or '').startswith('core::ops::function::Fn')]
                    if len(calls) == 1:
                        tup = trace_value(ab, ad, calls[0]['args'][1])[-1]
                        if tup[0] == 'rv' and tup[1].get('ak') == 'tuple' and len(tup[1]['fields']) == 2:
                            f0 = trace_value(ab, ad, tup[1]['fields'][0])[-1]
                            f1 = trace_value(ab, ad, tup[1]['fields'][1])[-1]
                            r = trace_value(ab, ad, {'copy': {'l': 0, 'p': [], 'ty': None}})[-1]
                            wrapped = r[0] == 'rv' and r[1].get('adt') == 'core::result::Result' and r[1].get('variant') == 'Ok'
                            if wrapped:
                                inner = trace_value(ab, ad, r[1]['fields'][0])[-1]
                                wrapped = inner[0] == 'call' and inner[1] is calls[0]
                            adapter_ok = f0 == ('param', 2) and f1 == ('param', 3) and wrapped
            if not ok or not adapter_ok:
                ctx.add(['C08', 'C10'], 'A-DELEG', WRAP, 'convert_vec_in_place does not pass its input, the converter\'s arguments (element, previous output) and the converter\'s answer through unchanged', key='deleg-passthrough')
            else:
                ctx.inst('A-DELEG', 'adapter closure: convert(t, u) passed through, answer wrapped in Ok, result unwrapped [%s]' % label)
    ctx.floor(['C10'], 'A-GUARD', 2)
