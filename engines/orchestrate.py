"""orchestrate: facts production, engine runs, per-property verdicts, evidence."""
import os, sys, json, time, hashlib, subprocess, fcntl, shutil, glob, re, random, traceback
from collections import defaultdict, Counter
from concurrent.futures import ProcessPoolExecutor

import mirlib
import properties as P

NSHARD = {'quick': 8, 'thorough': 16}


def sha_file(h, path):
    with open(path, 'rb') as f:
        while True:
            b = f.read(1 << 16)
            if not b:
                break
            h.update(b)


def tree_files(root, skip_dirs=('target', '.git', '.work', '__pycache__', 'evidence', 'seeded', 'selftest')):
    out = []
    for dp, dns, fns in os.walk(root):
        dns[:] = sorted(d for d in dns if d not in skip_dirs)
        for fn in sorted(fns):
            out.append(os.path.join(dp, fn))
    return out


def gen_worker(args):
    """Analyse the generated modules of one fact file (runs in a pool process)."""
    fact_dir, crate_name, modules, prim_summary, want_samples = args
    import gencheck
    t0 = time.time()
    crates = [c for c in mirlib.load_crates(fact_dir) if c.name == crate_name and 'Executable' in c.doc['crate_types'] + ['Executable'] and not c.doc.get('is_test')]
    res = {'findings': [], 'modules': [], 'errors': [], 'stats': Counter(), 'samples': []}
    if not crates:
        res['errors'].append('no fact file for crate %s in %s' % (crate_name, fact_dir))
        return res
    crate = crates[0]
    if modules is None:
        prefixes = gencheck.generated_modules(crate)
        todo = [(p, None) for p in prefixes]
    else:
        prefixes = ['%s::%s' % (crate_name, m['module']) for m in modules]
        todo = [('%s::%s' % (crate_name, m['module']), m) for m in modules]
    for prefix, sidecar in todo:
        label = sidecar['tag'] if sidecar else prefix
        tm = time.time()
        try:
            mod = gencheck.check_module(crate, prefix, sidecar, prim_summary, label=label, nested=prefixes)
        except Exception as e:  # analyser bug: fail closed, attributable
            res['errors'].append('GEN crashed on %s: %s\n%s' % (label, e, traceback.format_exc()[-1500:]))
            continue
        for f in mod.findings:
            d = f.to_json()
            d['engine'] = 'GEN'
            res['findings'].append(d)
        res['stats'].update(mod.stats)
        res['modules'].append({'label': label, 'prefix': prefix, 'variants': len(mod.records),
                               'functions': mod.stats.get('functions', 0), 'paths': mod.stats.get('paths', 0),
                               'accesses': len(mod.accesses), 'max_size': mod.max_size, 'secs': round(time.time() - tm, 2),
                               'fragments': [k for k in ('clone', 'serde') if sidecar and sidecar.get(k)]})
        if len(res['samples']) < want_samples:
            res['samples'].append({'module': label, 'MAX_SIZE': mod.max_size, 'repr_align': getattr(mod, 'repr_align', None),
                                   'variants': {str(v): [(c.name, c.k, c.ty) for c in cells] for v, cells in mod.F.items()},
                                   'history': sidecar.get('history') if sidecar else None})
    res['stats'] = dict(res['stats'])
    res['wall_s'] = time.time() - t0
    return res


class Orchestrator:
    def __init__(self, here, repo, work):
        self.here = here
        self.repo = repo
        self.work = work
        os.makedirs(work, exist_ok=True)

    # ------------------------------------------------------------------
    def machinery_hash(self):
        h = hashlib.sha256()
        for sub in ('engines', 'driver/src', 'corpus', 'probes', 'bin', 'fixtures'):
            root = os.path.join(self.here, sub)
            if not os.path.isdir(root):
                continue
            for f in tree_files(root):
                if f.endswith('.pyc') or '/target/' in f or f.endswith('Cargo.lock'):
                    continue
                h.update(f.encode())
                sha_file(h, f)
        kf = os.path.join(self.here, 'known_findings.json')
        return h.hexdigest()

    def tree_hash(self):
        h = hashlib.sha256()
        for f in tree_files(self.repo):
            h.update(os.path.relpath(f, self.repo).encode())
            try:
                sha_file(h, f)
            except OSError:
                pass
        h.update(self.machinery_hash().encode())
        return h.hexdigest()[:20]

    def driver(self):
        return os.path.join(self.here, 'driver', 'target', 'debug', 'mirdump')

    def build_driver(self):
        r = subprocess.run(['cargo', 'build', '--offline'], cwd=os.path.join(self.here, 'driver'),
                           env=dict(os.environ, CARGO_NET_OFFLINE='true'), capture_output=True, text=True)
        if r.returncode != 0:
            sys.stderr.write(r.stderr[-3000:])
            return False
        return True

    def setup(self):
        if not self.build_driver():
            return 1
        # warm dependency caches and the facts of the current tree (not required for correctness)
        try:
            self.results('quick', 1)
        except Exception as e:
            sys.stderr.write('setup: warm-up failed: %s\n' % e)
        return 0

    # ------------------------------------------------------------------
    def results(self, tier, seed, force=False):
        th = self.tree_hash()
        fdir = os.path.join(self.work, 'facts', '%s-%s-%d' % (th, tier, seed))
        rfile = os.path.join(fdir, 'results.json')
        lock = open(os.path.join(self.work, 'lock'), 'w')
        fcntl.flock(lock, fcntl.LOCK_EX)
        try:
            if force and os.path.isdir(fdir):
                shutil.rmtree(fdir)
            if not os.path.exists(rfile):
                self.gc_facts(keep=fdir)
                os.makedirs(fdir, exist_ok=True)
                res = self.produce(fdir, tier, seed, th)
                tmp = rfile + '.tmp'
                with open(tmp, 'w') as f:
                    json.dump(res, f)
                os.rename(tmp, rfile)
                # raw facts are large; keep only results and logs
                if not os.environ.get('VERIF_KEEP_FACTS'):
                    for d in glob.glob(os.path.join(fdir, 'facts_*')):
                        shutil.rmtree(d, ignore_errors=True)
            with open(rfile) as f:
                res = json.load(f)
            res['_dir'] = fdir
            return res
        finally:
            fcntl.flock(lock, fcntl.LOCK_UN)
            lock.close()

    def gc_facts(self, keep):
        root = os.path.join(self.work, 'facts')
        if not os.path.isdir(root):
            return
        ds = sorted(glob.glob(os.path.join(root, '*')), key=os.path.getmtime)
        for d in ds[:-6]:
            if d != keep:
                shutil.rmtree(d, ignore_errors=True)

    # ------------------------------------------------------------------
    def run_jobs(self, jobs, logdir):
        os.makedirs(logdir, exist_ok=True)
        procs = []
        for name, cmd, env in jobs:
            log = open(os.path.join(logdir, name + '.log'), 'w')
            e = dict(os.environ)
            e.update(env)
            e['CARGO_NET_OFFLINE'] = 'true'
            procs.append((name, subprocess.Popen(cmd, env=e, stdout=log, stderr=subprocess.STDOUT), log))
        rc = {}
        for name, p, log in procs:
            rc[name] = p.wait()
            log.close()
        return rc

    def produce(self, fdir, tier, seed, th):
        t0 = time.time()
        if not os.path.exists(self.driver()):
            if not self.build_driver():
                raise RuntimeError('cannot build the mirdump driver')
        nonce = '%s-%08x' % (th, random.getrandbits(32))
        run = os.path.join(self.here, 'bin', 'mirdump-run')
        logdir = os.path.join(fdir, 'logs')
        nshard = NSHARD.get(tier, 8)
        # the corpus crate path-depends on /repo: it needs /repo's lock file
        shutil.copyfile(os.path.join(self.repo, 'Cargo.lock'), os.path.join(self.here, 'corpus', 'Cargo.lock'))
        base_env = {'MIRDUMP_NONCE': nonce, 'VERIF_TIER': tier, 'VERIF_SEED': str(seed), 'CORPUS_NONCE': nonce}
        jobs = []
        f_on = os.path.join(fdir, 'facts_repo_on')
        f_off = os.path.join(fdir, 'facts_repo_off')
        jobs.append(('repo_on', [run, self.repo, f_on, os.path.join(self.work, 'target-repo-on'), '--workspace'], dict(base_env)))
        jobs.append(('repo_off', [run, self.repo, f_off, os.path.join(self.work, 'target-repo-off'), '-p', 'truc_runtime', '-p', 'truc'],
                     dict(base_env, DEBUG_ASSERTIONS='off')))
        if tier == 'thorough':
            jobs.append(('repo_allfeat', [run, self.repo, os.path.join(fdir, 'facts_repo_allfeat'), os.path.join(self.work, 'target-repo-allfeat'),
                                          '-p', 'truc', '--all-features'], dict(base_env)))
        jobs.append(('positive', [run, os.path.join(self.here, 'fixtures', 'positive'), os.path.join(fdir, 'facts_positive'),
                              os.path.join(self.work, 'target-positive')], dict(base_env)))
        idx_dir = os.path.join(fdir, 'corpus_idx')
        for i in range(nshard):
            env = dict(base_env, CORPUS_SHARD='%d/%d' % (i, nshard), CORPUS_INDEX_DIR=idx_dir, MIRDUMP_CRATES='corpus', CORPUS_KIND='main')
            jobs.append(('corpus_%d' % i, [run, os.path.join(self.here, 'corpus'), os.path.join(fdir, 'facts_corpus_%d' % i),
                                          os.path.join(self.work, 'target-corpus-%d' % i)], env))
        rc = self.run_jobs(jobs, logdir)
        res = {'tree': th, 'tier': tier, 'seed': seed, 'nonce': nonce, 'findings': [], 'errors': [], 'engines': {}, 'summary': {}}
        for name in ('repo_on', 'repo_off'):
            if rc[name] != 0:
                res['errors'].append('[ALL] cargo check of /repo failed (%s); see %s' % (name, os.path.join(logdir, name + '.log')))
        t_facts = time.time() - t0

        # ---- corpus shards that did not compile: attribute, exclude, retry (C13 G-COMPILES)
        compile_findings = []
        index = {}
        for i in range(nshard):
            name = 'corpus_%d' % i
            excluded = []
            tries = 0
            while rc[name] != 0 and tries < 3:
                tries += 1
                log = open(os.path.join(logdir, name + '.log')).read()
                bad = sorted(set(re.findall(r'/out/(m\d{4})\.rs', log)) - set(excluded))
                if not bad:
                    res['errors'].append('[GEN] corpus shard %d failed to build and the failure is not attributable to a generated module; see %s' % (i, os.path.join(logdir, name + '.log')))
                    break
                errs = defaultdict(list)
                for m in re.finditer(r'(error(?:\[E\d+\])?: [^\n]*)\n\s*--> [^\n]*/out/(m\d{4})\.rs:(\d+)', log):
                    errs[m.group(2)].append(m.group(1))
                for b in bad:
                    compile_findings.append((i, b, errs.get(b, ['(see log)'])[:3]))
                excluded += bad
                env = dict(base_env, CORPUS_SHARD='%d/%d' % (i, nshard), CORPUS_INDEX_DIR=idx_dir, MIRDUMP_CRATES='corpus', CORPUS_KIND='main',
                           CORPUS_EXCLUDE=','.join(excluded))
                rc.update(self.run_jobs([(name, [run, os.path.join(self.here, 'corpus'), os.path.join(fdir, 'facts_corpus_%d' % i),
                                                 os.path.join(self.work, 'target-corpus-%d' % i)], env)], logdir))
            idxf = os.path.join(idx_dir, 'index-main-%d.json' % i)
            if os.path.exists(idxf):
                d = json.load(open(idxf))
                if d.get('nonce') != nonce:
                    res['errors'].append('[GEN] stale corpus index for shard %d' % i)
                index[i] = d
            else:
                res['errors'].append('[GEN] corpus shard %d produced no index' % i)
        # ---- adaptive corpus: integer constants the generator / strategies / runtime compare against
        thresholds = []
        try:
            import src_engine
            thresholds = src_engine.thresholds(f_on, nonce)
            if os.environ.get('VERIF_DEBUG_THRESHOLDS'):  # machinery testing only; never set by registered commands
                thresholds = sorted(set(thresholds) | {int(x) for x in os.environ['VERIF_DEBUG_THRESHOLDS'].split(',')})
        except Exception as e:
            res['errors'].append('[GEN] threshold scan failed: %s' % e)
        if thresholds:
            NA = 8
            ajobs = {}
            for ai in range(NA):
                name = 'corpus_adaptive_%d' % ai
                env = dict(base_env, CORPUS_SHARD='%d/%d' % (ai, NA), CORPUS_INDEX_DIR=idx_dir, MIRDUMP_CRATES='corpus', CORPUS_KIND='adaptive',
                           CORPUS_THRESHOLDS=','.join(str(x) for x in thresholds))
                ajobs[name] = (name, [run, os.path.join(self.here, 'corpus'), os.path.join(fdir, 'facts_corpus_adaptive-%d' % ai),
                                      os.path.join(self.work, 'target-corpus-%d' % ai)], env)
            rc.update(self.run_jobs(list(ajobs.values()), logdir))
            for ai in range(NA):
                name = 'corpus_adaptive_%d' % ai
                job = ajobs[name]
                excluded = []
                tries = 0
                while rc[name] != 0 and tries < 3:
                    tries += 1
                    log = open(os.path.join(logdir, name + '.log')).read()
                    bad = sorted(set(re.findall(r'/out/(m\d{4})\.rs', log)) - set(excluded))
                    if not bad:
                        res['errors'].append('[GEN] adaptive corpus failed to build; see %s' % os.path.join(logdir, name + '.log'))
                        break
                    errs = defaultdict(list)
                    for m in re.finditer(r'(error(?:\[E\d+\])?: [^\n]*)\n\s*--> [^\n]*/out/(m\d{4})\.rs:(\d+)', log):
                        errs[m.group(2)].append(m.group(1))
                    for bm in bad:
                        compile_findings.append(('adaptive-%d' % ai, bm, errs.get(bm, ['(see log)'])[:3]))
                    excluded += bad
                    env2 = dict(job[2], CORPUS_EXCLUDE=','.join(excluded))
                    rc.update(self.run_jobs([(name, job[1], env2)], logdir))
                idxf = os.path.join(idx_dir, 'index-adaptive-%d.json' % ai)
                if os.path.exists(idxf):
                    index['adaptive-%d' % ai] = json.load(open(idxf))
        res['thresholds'] = thresholds
        # ---- builder / generator panics and compile failures (C13 observations)
        n_mod = 0
        n_def = 0
        for i, d in sorted(index.items(), key=lambda kv: str(kv[0])):
            for m in d['modules']:
                n_mod += 1
                dfn = m.get('definition')
                if dfn and 'max_size' in m:
                    # G-DEF (observation of the build step, C02): the definition recorded next to the generated
                    # module — every placed datum aligned and inside the capacity, each variant listed in address order
                    by_id = {x['id']: x for x in dfn['data']}
                    n_def += 1
                    for var in dfn['variants']:
                        last = -1
                        for did in var['data']:
                            x = by_id.get(did)
                            if x is None or x['offset'] is None:
                                continue
                            bad = None
                            if x['align'] and x['offset'] % x['align'] != 0:
                                bad = 'datum `%s` (size %d, align %d) of variant %d is at offset %d, not a multiple of its alignment' % (x['name'], x['size'], x['align'], var['id'], x['offset'])
                            elif x['offset'] + x['size'] > m['max_size']:
                                bad = 'datum `%s` of variant %d ends at %d, beyond the capacity %d' % (x['name'], var['id'], x['offset'] + x['size'], m['max_size'])
                            elif x['size'] > 0 and x['offset'] <= last:
                                bad = 'variant %d does not list its sized data in increasing address order (`%s` at %d after %d)' % (var['id'], x['name'], x['offset'], last)
                            if x['size'] > 0:
                                last = max(last, x['offset'])
                            if bad:
                                res['findings'].append({'props': ['C02'], 'rule': 'G-DEF', 'engine': 'GEN', 'module': m['tag'], 'tag': m['tag'], 'fn': None,
                                                        'msg': bad, 'key': 'G-DEF|%s|%s' % (P.history_key(m), x['name']), 'history': m['history']})
                                break
                        if dfn['data'] and m.get('max_type_align') is not None:
                            pass
                for k, what in (('builder_panic', 'the builder panicked'), ('max_size_panic', 'max_size() panicked'),
                                ('max_type_align_panic', 'max_type_align() panicked'), ('display_panic', 'rendering the definition as text panicked'),
                                ('generator_panic', 'generate() panicked')):
                    if k in m:
                        res['findings'].append({'props': ['C13'] + (['C12'] if k == 'builder_panic' else []), 'rule': 'G-PANIC', 'engine': 'GEN', 'module': m['tag'], 'tag': m['tag'], 'fn': k,
                                                'msg': '%s on a definition built from valid requests: %s' % (what, m[k][:200]),
                                                'key': 'G-PANIC|%s|%s' % (k, P.history_key(m)), 'history': m['history']})
        for i, b, errs in compile_findings:
            tag = None
            for m in index.get(i, {}).get('modules', []):
                if m['module'] == b:
                    tag = m['tag']
                    hist = m['history']
            res['findings'].append({'props': ['C13'], 'rule': 'G-COMPILES', 'engine': 'GEN', 'module': tag or b, 'tag': tag, 'fn': None,
                                    'msg': 'generated module does not compile: %s' % ' | '.join(errs), 'key': 'G-COMPILES|%s' % (tag or b)})

        # ---- SRC + CONV on the repository crates
        t1 = time.time()
        prim_summary = {}
        try:
            import src_engine
            src = src_engine.run(f_on, f_off, nonce, os.path.join(fdir, 'facts_repo_allfeat') if tier == 'thorough' else None,
                                 positive=os.path.join(fdir, 'facts_positive'))
            res['findings'] += src['findings']
            res['engines']['SRC'] = src['evidence']
            res['errors'] += ['[SRC] ' + e for e in src.get('errors', [])]
            prim_summary = src.get('prim_summary', {})
        except Exception as e:
            res['errors'].append('[SRC] SRC engine failed: %s\n%s' % (e, traceback.format_exc()[-2000:]))
        t_src = time.time() - t1

        # ---- GEN over corpus shards and the repository's example crates (pool)
        t2 = time.time()
        tasks = []
        for i, d in sorted(index.items(), key=lambda kv: str(kv[0])):
            mods = [m for m in d['modules'] if 'file' in m and m['module'] not in (d.get('excluded') or [])]
            excl = set()
            for (si, b, _) in compile_findings:
                if si == i:
                    excl.add(b)
            mods = [m for m in mods if m['module'] not in excl]
            tasks.append((os.path.join(fdir, 'facts_corpus_%s' % i), 'corpus', mods, prim_summary, 2))
        for cn in ('fibonacci', 'machin'):
            tasks.append((f_on, cn, None, prim_summary, 2))
        gen = {'modules': [], 'stats': Counter(), 'samples': [], 'corpus_modules': n_mod, 'definitions_checked': n_def}
        with ProcessPoolExecutor(max_workers=min(16, len(tasks))) as ex:
            for r in ex.map(gen_worker, tasks):
                res['findings'] += r['findings']
                res['errors'] += ['[GEN] ' + e for e in r['errors']]
                gen['modules'] += r['modules']
                gen['stats'].update(r['stats'])
                gen['samples'] += r['samples']
        gen['stats'] = dict(gen['stats'])
        gen['samples'] = gen['samples'][:6]
        res['engines']['GEN'] = gen
        t_gen = time.time() - t2
        floor = P.CORPUS_FLOOR.get(tier, 0)
        n_uncompilable = len(set((i, b) for i, b, _ in compile_findings))
        gen['modules_not_compiling'] = n_uncompilable
        if len(gen['modules']) + n_uncompilable < floor:
            res['errors'].append('[GEN] only %d generated modules were analysed (+%d that do not compile), floor for tier %s is %d' % (len(gen['modules']), n_uncompilable, tier, floor))

        # ---- WIT
        t3 = time.time()
        try:
            import witness
            wit = witness.run(self, fdir, tier, seed, nonce)
            res['findings'] += wit['findings']
            res['engines']['WIT'] = wit['evidence']
            res['errors'] += ['[WIT] ' + e for e in wit.get('errors', [])]
        except ImportError:
            pass
        except Exception as e:
            res['errors'].append('[WIT] WIT engine failed: %s\n%s' % (e, traceback.format_exc()[-2000:]))
        t_wit = time.time() - t3
        res['wall_s'] = time.time() - t0
        res['summary'] = {'tree': th, 'tier': tier, 'wall_s': round(res['wall_s'], 1), 'facts_s': round(t_facts, 1), 'src_s': round(t_src, 1),
                          'gen_s': round(t_gen, 1), 'wit_s': round(t_wit, 1), 'modules': len(gen['modules']),
                          'findings': dict(Counter(f['rule'] for f in res['findings'])), 'errors': res['errors'][:5]}
        return res

    # ------------------------------------------------------------------
    def known(self):
        p = os.path.join(self.here, 'known_findings.json')
        if not os.path.exists(p):
            return []
        return json.load(open(p)).get('known', [])

    def check(self, prop, tier, seed):
        t0 = time.time()
        spec = P.SPECS.get(prop)
        if spec is None:
            print('property %s is not claimed (see MANIFEST.not_applicable)' % prop)
            return 2
        res = self.results(tier, seed)
        fdir = res['_dir']
        mine = [f for f in res['findings'] if prop in f['props']]
        known = {(k['property'], k['key']): k for k in self.known()}
        viol, kf = [], {}
        for f in mine:
            k = known.get((prop, f['key']))
            if k is not None:
                kf.setdefault(f['key'], (k, f))
            else:
                viol.append(f)
        for key, (k, f) in sorted(kf.items()):
            print('KNOWN-FINDING: property=%s %s' % (prop, k['what']))
        engines = set(spec['engines']) | ({'SRC'} if 'CONV' in spec['engines'] else set())
        errors = []
        for e in res['errors']:
            m = re.match(r'^\[(\w+)\] ', e)
            if m is None or m.group(1) == 'ALL' or m.group(1) in engines:
                errors.append(e)
        have = (res['engines'].get('SRC') or {}).get('rules') or {}
        flagged_rules = {f['rule'] for f in viol}
        for r in P.REQUIRE.get(prop, []):
            if not have.get(r) and not any(fr == r or fr.startswith(r) for fr in flagged_rules):
                errors.append('[%s] rule %s examined nothing on this tree (analyser not run or anchor lost)' % (prop, r))
        gstats = (res['engines'].get('GEN') or {}).get('stats') or {}
        for k in P.REQUIRE_STATS.get(prop, []):
            if not gstats.get(k):
                errors.append('[%s] the generated-code analysis counted no `%s` on this tree (analyser not run, or nothing of that kind was generated)' % (prop, k))
        if prop in P.REQUIRE_WITNESSES:
            nw = ((res['engines'].get('WIT') or {}).get(prop) or {}).get('count', 0)
            if nw < P.REQUIRE_WITNESSES[prop]:
                errors.append('[%s] only %d witnesses were examined (floor %d)' % (prop, nw, P.REQUIRE_WITNESSES[prop]))
        vdir = os.path.join(self.here, 'evidence', 'violations')
        code = 0
        # dedupe violations by key
        seen = {}
        for f in viol:
            seen.setdefault(f['key'], f)
        if seen or errors:
            os.makedirs(vdir, exist_ok=True)
        n = 0
        for key, f in sorted(seen.items()):
            n += 1
            path = os.path.join(vdir, '%s-%d.json' % (prop, n))
            with open(path, 'w') as fh:
                json.dump({'property': prop, 'tree': res['tree'], 'tier': tier, 'seed': seed, 'finding': f}, fh, indent=1)
            print('%s: [%s] %s%s: %s' % (prop, f['rule'], (f.get('module') or '') and ('module %s, ' % f['module']), f.get('fn') or '-', f['msg']))
            print('VIOLATION property=%s replay=%s' % (prop, path))
            code = 1
        if errors:
            path = os.path.join(vdir, '%s-errors.json' % prop)
            with open(path, 'w') as fh:
                json.dump({'property': prop, 'tree': res['tree'], 'errors': errors}, fh, indent=1)
            for e in errors[:10]:
                print('%s: cannot decide (fail closed): %s' % (prop, e.splitlines()[0] if e else e))
            print('VIOLATION property=%s replay=%s' % (prop, path))
            code = 1
        ev = P.evidence(prop, spec, res, tier, seed, len(seen), len(kf), time.time() - t0)
        os.makedirs(os.path.join(self.here, 'evidence'), exist_ok=True)
        with open(os.path.join(self.here, 'evidence', prop + '.json'), 'w') as fh:
            json.dump(ev, fh, indent=1)
        if code == 0:
            print('%s: holds on everything analysed (%s; tree %s, tier %s)' % (prop, P.one_line(prop, spec, res), res['tree'], tier))
        return code

    def replay(self, path):
        d = json.load(open(path))
        prop = d['property']
        print(json.dumps(d.get('finding') or d.get('errors'), indent=1))
        return self.check(prop, d.get('tier', 'quick'), d.get('seed', 1))
