"""src_engine: runs the SRC rules and the CONV interpreter over the repository crates."""
import os, traceback
import mirlib
import src_rules


def pick(crates, name, prefer_lib=True):
    cs = [c for c in crates if c.name == name]
    return cs[0] if cs else None


def run(f_on, f_off, nonce, f_allfeat=None, positive=None):
    out = {'findings': [], 'errors': [], 'evidence': {}, 'prim_summary': {}}
    configs = []
    for label, d in (('debug-assertions=on', f_on), ('debug-assertions=off', f_off), ('all-features', f_allfeat)):
        if d is None:
            continue
        try:
            crates = mirlib.load_crates(d, nonce)
        except Exception as e:
            out['errors'].append('facts for %s: %s' % (label, e))
            continue
        configs.append((label, crates))
    if not configs:
        out['errors'].append('no repository facts')
        return out
    ev = {'configs': [], 'rules': {}}
    seen_keys = set()
    for label, crates in configs:
        rt = pick(crates, 'truc_runtime')
        tr = pick(crates, 'truc')
        ctx = src_rules.Ctx()
        cfg = {'config': label, 'bodies': {c.name: len(c.bodies) for c in crates if c.name in ('truc', 'truc_runtime')}}
        if rt is None:
            out['errors'].append('no facts for crate truc_runtime (%s)' % label)
        else:
            try:
                rt = helper_view(rt, lambda c: (src_rules.rule_prim(src_rules.Ctx(), c), src_rules.run_runtime_rules(src_rules.Ctx(), c, label)), cfg)
                ps = src_rules.rule_prim(ctx, rt)
                if label == 'debug-assertions=on':
                    out['prim_summary'] = ps
                src_rules.run_runtime_rules(ctx, rt, label)
            except Exception as e:
                out['errors'].append('SRC runtime rules crashed (%s): %s\n%s' % (label, e, traceback.format_exc()[-1500:]))
        if tr is None:
            if label != 'debug-assertions=off' or True:
                out['errors'].append('no facts for crate truc (%s)' % label)
        else:
            try:
                tr = helper_view(tr, lambda c: src_rules.run_truc_rules(src_rules.Ctx(), c, label), cfg)
                src_rules.run_truc_rules(ctx, tr, label)
            except Exception as e:
                out['errors'].append('SRC truc rules crashed (%s): %s\n%s' % (label, e, traceback.format_exc()[-1500:]))
        for f in ctx.findings:
            j = f.to_json()
            j['engine'] = 'SRC' if not f.rule.startswith('O') and not f.rule.startswith('CONV') else 'CONV'
            j['config'] = label
            if j['key'] in seen_keys:
                continue
            seen_keys.add(j['key'])
            out['findings'].append(j)
        cfg['instances'] = {r: len(v) for r, v in ctx.instances.items()}
        ev['configs'].append(cfg)
        for r, v in ctx.instances.items():
            ev['rules'].setdefault(r, v)
        if getattr(ctx, 'conv', None):
            ev.setdefault('conv', {})[label] = ctx.conv
    # positive controls: zero-count rules must fire on the fixture
    if positive is not None:
        try:
            pc = pick(mirlib.load_crates(positive, nonce), 'verif_positive_controls')
            c2 = src_rules.Ctx()
            src_rules.scan_nondeterminism(c2, pc)
            hits = {f.key.split('|')[-2] + ':' + f.key.split('|')[-1] for f in c2.findings}
            need = [('HashMap iteration', any('hash' in h.lower() for h in hits)), ('env read', any('std::env::var' in h for h in hits))]
            kinds = {f.key.split('|')[1] if f.key.count('|') >= 1 else '' for f in c2.findings}
            need.append(('raw pointer comparison', 'ptrcmp' in kinds))
            need.append(('interior-mutable field', 'state-field' in kinds))
            need.append(('static with shared state', 'static-state' in kinds))
            pk = {f.where for f in c2.findings if f.key.endswith('|ptrkey')}
            need.append(('sort keyed by an address', any('by_address' in w for w in pk)))
            need.append(('raw pointers merely stored not reported as keys', not any('keep_pointers' in w for w in pk)))
            p2i = {f.where for f in c2.findings if f.key.endswith('|ptr2int')}
            need.append(('pointer transmuted to an integer', any('address_of' in w for w in p2i)))
            need.append(('compiler-inserted pointer check not reported', not any('through_raw' in w for w in p2i)))
            tr = [1 for b in pc.bodies for bb, t in b.calls() if src_rules.TRUNCATING.search(mirlib.callee_decl_path(t) or mirlib.callee_path(t) or '') and 'Iterator' in (mirlib.callee_decl_path(t) or mirlib.callee_path(t) or '')]
            need.append(('truncating iterator adaptor', bool(tr)))
            c3 = src_rules.Ctx()
            for b in pc.bodies:
                if b.path.endswith('first_at_least'):
                    src_rules.search_predicates(c3, pc, b, 'B-GUARD-RM', ['C12'], 'fixture')
            need.append(('search predicate with an ordering comparison', any('predicate' in f.key for f in c3.findings)))
            hq = [1 for b in pc.bodies for bb, t in b.calls() if mirlib.callee_path(t) in src_rules.HOST_QUERIES]
            need.append(('host layout query', bool(hq)))
            for what, ok in need:
                if not ok:
                    out['errors'].append('positive control not flagged: %s (a rule with expected count zero cannot fire)' % what)
            ev['positive_controls'] = [w for w, ok in need if ok]
        except Exception as e:
            out['errors'].append('positive controls: %s' % e)
    out['evidence'] = ev
    return out


def helper_view(crate, dry_run, cfg):
    """Private helper functions that no rule names as an anchor are inlined into their (same-module)
    callers: a rule anchored on an entry point then sees the code the entry point runs, whether or
    not it was split into helpers.  The anchors are found by a dry run of the rules."""
    rec = mirlib.RecordingCrate(crate)
    try:
        dry_run(rec)
    except Exception:
        pass
    view = mirlib.CrateView(crate, pinned=rec.asked)
    cfg.setdefault('inlined_helpers', {})[crate.name] = sorted(view.absorbed)
    return view


def thresholds(f_on, nonce):
    """Integer constants (>= 2) that non-test code of the generator, the strategies or the runtime
    compares a value against in a branch condition (not an overflow / bounds assertion)."""
    crates = mirlib.load_crates(f_on, nonce)
    out = set()
    for c in crates:
        if c.name not in ('truc', 'truc_runtime'):
            continue
        for b in c.bodies:
            mod = b.module or ''
            if c.name == 'truc' and not (mod.startswith('truc::generator') or mod.startswith('truc::record::definition')):
                continue
            asserted = set()
            for blk in b.blocks:
                t = blk['term']
                if t['k'] == 'assert' and mirlib.op_place(t['cond']):
                    asserted.add(mirlib.op_place(t['cond'])['l'])
            for bb, si, st in b.statements():
                if st['k'] == 'assign' and st['rv']['k'] == 'bin' and st['rv']['op'] in ('Lt', 'Le', 'Gt', 'Ge', 'Eq', 'Ne'):
                    if st['place']['l'] in asserted or (st.get('span') or {}).get('exp'):
                        continue
                    for side in ('l', 'r'):
                        iv = mirlib.op_int(st['rv'][side])
                        if iv is not None and 2 <= iv <= 300:
                            out.add(iv)
    return sorted(out)
