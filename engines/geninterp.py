"""geninterp: path-sensitive ownership / typestate interpreter for the MIR of
truc-generated modules (DESIGN §2.4).

Generated functions are loop-free; every storage access is a call to one of
the four runtime primitives with a constant offset and a concrete type. The
interpreter walks every CFG path (forking at switches on unknown values and at
feasible unwind edges), tracking which bytes of which buffer own which
droppable value. Nothing is executed: the "values" are provenance tags.
"""
import copy
import re
from mirlib import (op_place, op_const, op_int, callee_path, callee_decl_path,
                    callee_ty_args, fmt_span, place_str)


class Unanalysable(Exception):
    pass


class Violation(Exception):
    """Raised for findings that make continuing the path meaningless."""
    def __init__(self, rule, msg):
        super().__init__(msg)
        self.rule = rule
        self.msg = msg


# ---------------------------------------------------------------------------
# abstract values

class V:
    __slots__ = ()


class Moved(V):
    __slots__ = ()
    def __repr__(self):
        return 'Moved'

MOVED = Moved()


class Unk(V):
    """A value that owns nothing (plain data, references we do not track)."""
    __slots__ = ('ty', 'origin')
    def __init__(self, ty, origin=None):
        self.ty = ty
        self.origin = origin
    def __repr__(self):
        return 'Unk(%s,%s)' % (self.ty, self.origin)


class Const(V):
    __slots__ = ('val', 'ty')
    def __init__(self, val, ty=None):
        self.val = val
        self.ty = ty
    origin = ('const',)
    def __repr__(self):
        return 'Const(%s)' % (self.val,)


class Own(V):
    """An owned droppable value (identified by a token)."""
    __slots__ = ('tok',)
    def __init__(self, tok):
        self.tok = tok
    def __repr__(self):
        return 'Own(%d)' % self.tok


class Buf(V):
    __slots__ = ('oid',)
    def __init__(self, oid):
        self.oid = oid
    def __repr__(self):
        return 'Buf(%d)' % self.oid


class Rec(V):
    __slots__ = ('v', 'oid')
    def __init__(self, v, oid):
        self.v = v
        self.oid = oid
    def __repr__(self):
        return 'Rec(%s,%d)' % (self.v, self.oid)


class Agg(V):
    """Struct / tuple / closure value with individually tracked fields."""
    __slots__ = ('ty', 'adt', 'fields', 'origin')
    def __init__(self, ty, adt, fields, origin=None):
        self.ty = ty
        self.adt = adt
        self.fields = fields      # dict key -> V ; key = field name or index
        self.origin = origin
    def __repr__(self):
        return 'Agg(%s,%r)' % (self.adt, self.fields)


class Enum(V):
    __slots__ = ('ty', 'variant', 'payload', 'origin')
    def __init__(self, ty, variant, payload, origin=None):
        self.ty = ty
        self.variant = variant    # variant name or None (unknown)
        self.payload = payload    # dict idx -> V
        self.origin = origin
    def __repr__(self):
        return 'Enum(%s::%s,%r)' % (self.ty, self.variant, self.payload)


class Ref(V):
    __slots__ = ('loc', 'mut', 'raw')
    def __init__(self, loc, mut, raw=False):
        self.loc = loc
        self.mut = mut
        self.raw = raw
    def __repr__(self):
        return '%s(%r)' % ('Ptr' if self.raw else 'Ref', self.loc)


class MD(V):
    """ManuallyDrop<inner>."""
    __slots__ = ('inner',)
    def __init__(self, inner):
        self.inner = inner
    def __repr__(self):
        return 'MD(%r)' % (self.inner,)


class Discr(V):
    __slots__ = ('loc',)
    def __init__(self, loc):
        self.loc = loc


# ---------------------------------------------------------------------------
# state

class Cell:
    __slots__ = ('k', 'ty', 'val', 'state', 'more')
    # state: 'owned' (val is Own or Unk), 'moved' (read out), 'dup' (duplicated away)
    # more: further values "stored" at the same place (zero-size types only: several
    # fields of one zero-size type may share an offset)
    def __init__(self, k, ty, val, state='owned', more=None):
        self.k = k
        self.ty = ty
        self.val = val
        self.state = state
        self.more = more or []
    def values(self):
        return ([self.val] + list(self.more)) if self.state == 'owned' else []
    def take(self):
        v = self.val
        if self.more:
            self.val = self.more.pop()
        else:
            self.state = 'moved'
        return v
    def __repr__(self):
        return 'Cell(%d,%s,%s,%r)' % (self.k, self.ty, self.state, self.val)


class BufObj:
    __slots__ = ('cells', 'in_record', 'borrowed')
    def __init__(self):
        self.cells = {}           # (k, ty) -> Cell
        self.in_record = False    # currently the `.data` of a repr(align) record
        self.borrowed = False     # belongs to the caller (behind a reference parameter)


class Token:
    __slots__ = ('ty', 'origin', 'state', 'where')
    def __init__(self, ty, origin):
        self.ty = ty
        self.origin = origin
        self.state = 'live'       # live | dropped | passed | returned
        self.where = None


class State:
    def __init__(self):
        self.frames = []          # list of dict local -> V   (call stack, innermost last)
        self.objs = {}            # oid -> BufObj
        self.toks = {}            # tok -> Token
        self.hidden = {}          # hidden locals for referents of reference parameters
        self.events = []
        self.flags = []           # findings on this path (rule, msg)
        self.trace = []           # blocks visited (outermost frame)
        self.dtor_panic = False   # this path unwinds out of a panicking destructor
        self.next_id = 0

    def fresh(self):
        self.next_id += 1
        return self.next_id

    def fork(self):
        # events / flags / trace hold immutable tuples (and fact dictionaries that are never
        # written): share the items, copy the list.  Everything else is copied deeply with one
        # memo so that aliasing between frames, objects and tokens is preserved.
        s = State.__new__(State)
        memo = {}
        for k, v in self.__dict__.items():
            if k in ('events', 'flags', 'trace'):
                s.__dict__[k] = list(v)
            else:
                s.__dict__[k] = fast_copy(v, memo)
        return s


_IMMUTABLE = {Moved, Unk, Const, Own, Buf, Rec, Ref, Discr, str, int, bool, float, type(None), frozenset}


def fast_copy(x, memo):
    """Deep copy specialised to the interpreter's state: values that are never mutated in place are
    shared, containers and mutable values are copied once per identity (aliasing preserved)."""
    t = type(x)
    if t in _IMMUTABLE:
        return x
    i = id(x)
    y = memo.get(i)
    if y is not None:
        return y
    if t is dict:
        y = {}
        memo[i] = y
        for k, v in x.items():
            y[k] = fast_copy(v, memo)
    elif t is list:
        y = []
        memo[i] = y
        for v in x:
            y.append(fast_copy(v, memo))
    elif t is tuple:
        items = [fast_copy(v, memo) for v in x]
        y = x if all(a is b for a, b in zip(items, x)) else tuple(items)
    elif t is Cell:
        y = Cell.__new__(Cell)
        memo[i] = y
        y.k, y.ty, y.state = x.k, x.ty, x.state
        y.val = fast_copy(x.val, memo)
        y.more = [fast_copy(v, memo) for v in x.more]
    elif t is Agg:
        y = Agg(x.ty, x.adt, None, x.origin)
        memo[i] = y
        y.fields = fast_copy(x.fields, memo)
    elif t is Enum:
        y = Enum(x.ty, x.variant, None, x.origin)
        memo[i] = y
        y.payload = fast_copy(x.payload, memo)
    elif t is MD:
        y = MD(None)
        memo[i] = y
        y.inner = fast_copy(x.inner, memo)
    elif t is BufObj:
        y = BufObj.__new__(BufObj)
        memo[i] = y
        y.in_record, y.borrowed = x.in_record, x.borrowed
        y.cells = fast_copy(x.cells, memo)
    elif t is Token:
        y = Token.__new__(Token)
        memo[i] = y
        y.ty, y.origin, y.state, y.where = x.ty, x.origin, x.state, x.where
    elif t is set:
        y = set(x)
        memo[i] = y
    else:
        y = copy.deepcopy(x, memo)
    return y


# ---------------------------------------------------------------------------

PRIM_PREFIX = 'truc_runtime::data::RecordMaybeUninit::<CAP>::'
PRIMS = {'read', 'write', 'get', 'get_mut', 'new'}

# External functions that cannot unwind (reason in DESIGN §2.2).
NO_UNWIND_EXTERNAL = {
    'core::ptr::read', 'core::ptr::write', 'core::ptr::write_unaligned', 'core::ptr::read_unaligned',
    'core::mem::forget', 'core::mem::manually_drop::ManuallyDrop::<T>::new',
    'core::mem::manually_drop::ManuallyDrop::<T>::into_inner',
    '<core::mem::manually_drop::ManuallyDrop<T> as core::ops::deref::Deref>::deref',
    '<core::mem::manually_drop::ManuallyDrop<T> as core::ops::deref::DerefMut>::deref_mut',
    'core::mem::maybe_uninit::MaybeUninit::<T>::uninit',
    'core::mem::maybe_uninit::MaybeUninit::<T>::assume_init',
    'core::mem::maybe_uninit::MaybeUninit::<T>::as_ptr',
    'core::mem::maybe_uninit::MaybeUninit::<T>::as_mut_ptr',
    'core::ptr::const_ptr::<impl *const T>::add', 'core::ptr::const_ptr::<impl *const T>::cast',
    'core::ptr::mut_ptr::<impl *mut T>::add', 'core::ptr::mut_ptr::<impl *mut T>::cast',
    'core::slice::<impl [T]>::as_ptr', 'core::slice::<impl [T]>::as_mut_ptr',
    'core::slice::<impl [T]>::len',
    'core::mem::size_of', 'core::mem::align_of',
    'core::intrinsics::copy_nonoverlapping', 'core::ptr::copy_nonoverlapping',
    'core::mem::manually_drop::ManuallyDrop::<T>::take',
}

STD_ENUMS = {
    'core::option::Option': ['None', 'Some'],
    'core::result::Result': ['Ok', 'Err'],
    'core::ops::control_flow::ControlFlow': ['Continue', 'Break'],
}


def base_adt(ty):
    """`a::b::C<X, Y>` -> `a::b::C`."""
    i = ty.find('<')
    return ty if i < 0 else ty[:i]


class Interp:
    """Interprets one entry body of a generated module."""

    MAX_PATHS = 4000
    MAX_DEPTH = 8

    def __init__(self, mod, body, entry_kind=None):
        self.mod = mod            # gencheck.Module
        self.crate = mod.crate
        self.entry = body
        self.entry_kind = entry_kind
        self.outcomes = []        # list of (kind, State, retval)
        self.paths = 0

    # -- type helpers ------------------------------------------------------
    def tinfo(self, ty):
        return self.crate.types.get(ty) or {}

    def needs_drop(self, ty, default=True):
        ti = self.tinfo(ty)
        if 'needs_drop' in ti:
            return ti['needs_drop']
        rv = self.mod.record_variant_of_type(ty)
        if rv is not None:
            return True
        return default

    # -- initial values ----------------------------------------------------
    def init_value(self, st, ty, origin, borrowed=False, depth=0):
        mod = self.mod
        rv = mod.record_variant_of_type(ty)
        if rv is not None:
            return self.init_record(st, rv, origin, borrowed)
        ti = self.tinfo(ty)
        k = ti.get('k')
        if k == 'tuple':
            fields = {}
            for i, et in enumerate(ti['elems']):
                fields[i] = self.init_value(st, et, origin + (i,), borrowed, depth + 1)
            return Agg(ty, None, fields, origin)
        if k == 'ref' or k == 'ptr':
            to = ti['to']
            if mod.record_variant_of_type(to) is not None or self.is_local_struct(to):
                hid = ('hidden', st.fresh())
                st.hidden[hid] = self.init_value(st, to, origin + ('*',), True, depth + 1)
                return Ref(('local', hid, ()), ti.get('mut', False), raw=(k == 'ptr'))
            return Unk(ty, origin)
        if k == 'adt':
            path = ti['path']
            if path == 'truc_runtime::data::RecordMaybeUninit':
                raise Unanalysable('bare RecordMaybeUninit parameter of type %s' % ty)
            if path == 'core::mem::manually_drop::ManuallyDrop':
                inner = ti['args'][0]['ty']
                return MD(self.init_value(st, inner, origin + ('md',), borrowed, depth + 1))
            adt = self.crate.adts.get(path)
            if adt is not None and adt['kind'] == 'Struct' and depth < 6 and mod.in_module(path):
                fields = {}
                for f in adt['variants'][0]['fields']:
                    fty = self.subst_field_ty(f['ty'], adt, ti)
                    fields[f['name']] = self.init_value(st, fty, origin + (f['name'],), borrowed, depth + 1)
                return Agg(ty, path, fields, origin)
        if self.needs_drop(ty):
            tok = st.fresh()
            st.toks[tok] = Token(ty, origin)
            if borrowed:
                st.toks[tok].state = 'borrowed'
            return Own(tok)
        return Unk(ty, origin)

    def is_local_struct(self, ty):
        ti = self.tinfo(ty)
        return ti.get('k') == 'adt' and ti.get('path') in self.crate.adts and self.mod.in_module(ti.get('path'))

    def subst_field_ty(self, fty, adt, ti):
        """Substitute type parameters of a generic local struct (UnpackedUninitSafe*)."""
        fi = self.tinfo(fty)
        if fi.get('k') == 'param':
            gens = [g for g in adt['generics']]
            names = [g['name'] for g in gens]
            if fi['name'] in names:
                args = [a for a in ti['args']]
                idx = names.index(fi['name'])
                if idx < len(args) and 'ty' in args[idx]:
                    return args[idx]['ty']
        return fty

    def init_record(self, st, v, origin, borrowed):
        oid = st.fresh()
        b = BufObj()
        b.in_record = True
        b.borrowed = borrowed
        for c in self.mod.F[v]:
            key = (c.k, c.ty)
            o = origin + ('cell', c.name)
            if c.needs_drop:
                tok = st.fresh()
                st.toks[tok] = Token(c.ty, o)
                st.toks[tok].where = ('cell', oid, c.k, c.ty)
                if borrowed:
                    st.toks[tok].state = 'borrowed'
                val = Own(tok)
            else:
                val = Unk(c.ty, o)
            if key in b.cells and c.size == 0:
                b.cells[key].more.append(val)
            else:
                b.cells[key] = Cell(c.k, c.ty, val)
        st.objs[oid] = b
        st.events.append(('arg_rec', origin, oid, v))
        return Rec(v, oid)

    # -- running -----------------------------------------------------------
    def run(self):
        st = State()
        body = self.entry
        frame = {}
        self.mut_params = {}      # arg index -> hidden local holding the referent of a `&mut` parameter
        for i in range(1, body.arg_count + 1):
            ty = body.local_ty(i)
            frame[i] = self.init_value(st, ty, ('arg', i))
            if isinstance(frame[i], Ref) and frame[i].mut and not frame[i].raw and frame[i].loc[0] == 'local' and isinstance(frame[i].loc[1], tuple):
                self.mut_params[i] = frame[i].loc[1]
        st.frames.append(frame)
        self.outcomes = self.exec_body(st, body, 0)
        return self.outcomes

    def exec_body(self, st, body, depth):
        """Runs `body` with st.frames[-1] as its frame; returns outcomes
        [(kind, state, retval)] with the frame popped."""
        if depth > self.MAX_DEPTH:
            raise Unanalysable('call depth > %d at %s' % (self.MAX_DEPTH, body.key))
        outcomes = []
        work = [(st, 0)]
        while work:
            st, bb = work.pop()
            self.paths += 1
            if self.paths > self.MAX_PATHS:
                raise Unanalysable('more than %d paths in %s' % (self.MAX_PATHS, self.entry.key))
            visited = set()
            while True:
                if bb in visited:
                    raise Unanalysable('loop in %s at bb%d' % (body.key, bb))
                visited.add(bb)
                if depth == 0:
                    st.trace.append(bb)
                nxt = self.exec_block(st, body, bb, depth, work, outcomes)
                if nxt is None:
                    break
                bb = nxt
        return outcomes

    def exec_block(self, st, body, bb, depth, work, outcomes):
        blk = body.blocks[bb]
        L = st.frames[-1]
        for sti, stmt in enumerate(blk['stmts']):
            k = stmt['k']
            if k == 'assign':
                val = self.eval_rvalue(st, body, stmt['rv'], stmt)
                self.store_place(st, body, stmt['place'], val, stmt)
            elif k in ('live', 'dead', 'assume'):
                pass
            elif k == 'set_discr':
                raise Unanalysable('SetDiscriminant in %s' % body.key)
            elif k == 'copy_nonoverlapping':
                raise Unanalysable('copy_nonoverlapping in generated code %s' % body.key)
            else:
                raise Unanalysable('statement %s in %s' % (stmt.get('dbg', k), body.key))
        t = blk['term']
        k = t['k']
        if k == 'goto':
            return t['t']
        if k == 'return':
            ret = L.get(0, MOVED)
            frame = st.frames.pop()
            self.check_frame_exit(st, body, frame, 'return')
            outcomes.append(('return', st, ret))
            return None
        if k == 'resume':
            frame = st.frames.pop()
            self.check_frame_exit(st, body, frame, 'unwind')
            outcomes.append(('unwind', st, None))
            return None
        if k == 'unreachable':
            return None
        if k == 'abort':
            return None
        if k == 'switch':
            return self.exec_switch(st, body, t, work)
        if k == 'assert':
            # overflow / bounds / alignment assertions: fork the failing edge if it unwinds
            if isinstance(t['unwind'], int):
                st2 = st.fork()
                work.append((st2, t['unwind']))
            elif t['unwind'] == 'continue':
                st2 = st.fork()
                frame = st2.frames.pop()
                self.unwind_frame(st2, body, frame)
                outcomes.append(('unwind', st2, None))
            return t['t']
        if k == 'drop':
            return self.exec_drop(st, body, t, work, outcomes)
        if k == 'call':
            return self.exec_call(st, body, bb, t, depth, work, outcomes)
        raise Unanalysable('terminator %s in %s' % (t.get('dbg', k), body.key))

    # -- places ------------------------------------------------------------
    def resolve(self, st, body, place, create=False):
        """Place -> abstract location."""
        loc = ('local', place['l'], ())
        for e in place['p']:
            loc = self.project(st, body, loc, e)
        return loc

    def project(self, st, body, loc, e):
        if e == 'deref':
            v = self.load(st, loc)
            if isinstance(v, Ref):
                return v.loc
            if isinstance(v, MD):
                return loc
            if isinstance(v, Unk):
                return ('opaque', (v.ty or '&?').lstrip('&'), v.origin)
            raise Unanalysable('deref of %r in %s' % (v, body.key))
        if 'f' in e:
            v = self.load(st, loc)
            name = e.get('name', e['f'])
            if isinstance(v, Rec):
                return ('obj', v.oid)
            if isinstance(v, MD):
                # ManuallyDrop { value }
                return loc + ('md',) if False else ('mdinner', loc)
            if isinstance(v, Agg):
                key = name if name in v.fields else e['f']
                if key not in v.fields:
                    # lazily materialise (closures, tuples of unknown origin)
                    v.fields[key] = self.init_value(st, e['ty'], (v.origin or ('?',)) + (key,))
                return ('local', loc[1], loc[2] + (key,)) if loc[0] == 'local' else ('sub', loc, key)
            if isinstance(v, Enum):
                key = e['f']
                if key not in v.payload:
                    v.payload[key] = self.init_value(st, e['ty'], (v.origin or ('?',)) + ('payload', v.variant, key))
                return ('local', loc[1], loc[2] + (('payload', key),)) if loc[0] == 'local' else ('sub', loc, ('payload', key))
            if isinstance(v, (Unk, Own)) and loc[0] == 'local':
                # field of an opaque value: materialise an aggregate on demand
                agg = Agg(getattr(v, 'ty', None), None, {}, getattr(v, 'origin', None) or ('?',))
                if isinstance(v, Own):
                    raise Unanalysable('field projection into owned opaque value in %s' % body.key)
                self.store(st, loc, agg)
                key = name
                agg.fields[key] = self.init_value(st, e['ty'], agg.origin + (key,))
                return ('local', loc[1], loc[2] + (key,))
            raise Unanalysable('field %s of %r in %s' % (name, v, body.key))
        if 'downcast' in e:
            v = self.load(st, loc)
            if isinstance(v, Own):
                v = self.decompose(st, loc, v)
            if isinstance(v, Enum):
                nm = e.get('name')
                if v.variant is None:
                    v.variant = nm
                elif v.variant != nm:
                    raise Unanalysable('downcast to %s of %r' % (nm, v))
                return loc
            if isinstance(v, Unk):
                en = Enum(v.ty, e.get('name'), {}, v.origin or ('?',))
                self.store(st, loc, en)
                return loc
            raise Unanalysable('downcast of %r in %s' % (v, body.key))
        raise Unanalysable('projection %r in %s' % (e, body.key))

    def decompose(self, st, loc, v):
        """An owned enum value is about to be taken apart: hand ownership to its payload."""
        tk = st.toks[v.tok]
        if self.enum_variants(tk.ty) is None:
            raise Unanalysable('enum-like access to owned %s' % tk.ty)
        if tk.state == 'live':
            tk.state = 'decomposed'
        en = Enum(tk.ty, None, {}, tk.origin)
        self.store(st, loc, en)
        return en

    def frame_get(self, st, l):
        if isinstance(l, tuple) and l and l[0] == 'hidden':
            return st.hidden.get(l, MOVED)
        return st.frames[-1].get(l, MOVED)

    def frame_set(self, st, l, v):
        if isinstance(l, tuple) and l and l[0] == 'hidden':
            st.hidden[l] = v
        else:
            st.frames[-1][l] = v

    def load(self, st, loc):
        kind = loc[0]
        if kind == 'local':
            v = self.frame_get_any(st, loc[1])
            for key in loc[2]:
                v = self.sub(v, key)
            return v
        if kind == 'flocal':
            v = st.frames[loc[3]].get(loc[1], MOVED)
            for key in loc[2]:
                v = self.sub(v, key)
            return v
        if kind == 'obj':
            return Buf(loc[1])
        if kind == 'cell':
            c = st.objs[loc[1]].cells.get((loc[2], loc[3]))
            if c is None:
                return MOVED
            return c.val if c.state == 'owned' else MOVED
        if kind == 'mdinner':
            v = self.load(st, loc[1])
            if isinstance(v, MD):
                return v.inner
            raise Unanalysable('mdinner of %r' % (v,))
        if kind == 'sub':
            return self.sub(self.load(st, loc[1]), loc[2])
        if kind == 'opaque':
            return Unk(loc[1], loc[2])
        raise Unanalysable('load %r' % (loc,))

    def frame_get_any(self, st, l):
        if isinstance(l, tuple) and l and l[0] == 'hidden':
            return st.hidden.get(l, MOVED)
        if isinstance(l, tuple) and l and l[0] == 'frame':
            return st.frames[l[1]].get(l[2], MOVED)
        return st.frames[-1].get(l, MOVED)

    def sub(self, v, key):
        if isinstance(v, Agg):
            return v.fields.get(key, MOVED)
        if isinstance(v, Enum) and isinstance(key, tuple) and key[0] == 'payload':
            return v.payload.get(key[1], MOVED)
        if isinstance(v, Moved):
            return MOVED
        raise Unanalysable('sub %r of %r' % (key, v))

    def store(self, st, loc, val):
        kind = loc[0]
        if kind == 'local':
            l, path = loc[1], loc[2]
            if not path:
                self.frame_set_any(st, l, val)
                return
            v = self.frame_get_any(st, l)
            for key in path[:-1]:
                v = self.sub(v, key)
            key = path[-1]
            if isinstance(v, Agg):
                v.fields[key] = val
            elif isinstance(v, Enum) and isinstance(key, tuple):
                v.payload[key[1]] = val
            else:
                raise Unanalysable('store into %r' % (v,))
            return
        if kind == 'cell':
            c = st.objs[loc[1]].cells.get((loc[2], loc[3]))
            if c is None:
                raise Unanalysable('store to absent cell %r' % (loc,))
            c.val = val
            c.state = 'owned' if not isinstance(val, Moved) else 'moved'
            if isinstance(val, Own):
                st.toks[val.tok].where = loc
            return
        if kind == 'mdinner':
            v = self.load(st, loc[1])
            if isinstance(v, MD):
                v.inner = val
                return
        if kind == 'sub':
            v = self.load(st, loc[1])
            key = loc[2]
            if isinstance(v, Agg):
                v.fields[key] = val
                return
            if isinstance(v, Enum) and isinstance(key, tuple):
                v.payload[key[1]] = val
                return
        if kind == 'obj':
            if isinstance(val, Moved):
                return  # moving a buffer out of a record field: handled by caller
        if kind == 'opaque':
            if isinstance(val, (Own, Rec, Buf, MD)):
                raise Unanalysable('owned value stored through an untracked reference')
            return
        raise Unanalysable('store %r := %r' % (loc, val))

    def frame_set_any(self, st, l, v):
        if isinstance(l, tuple) and l and l[0] == 'hidden':
            st.hidden[l] = v
        elif isinstance(l, tuple) and l and l[0] == 'frame':
            st.frames[l[1]][l[2]] = v
        else:
            st.frames[-1][l] = v

    def globalise(self, st, loc):
        """Make a location valid across frames (references passed to callees)."""
        if loc[0] == 'local' and not (isinstance(loc[1], tuple)):
            return ('local', ('frame', len(st.frames) - 1, loc[1]), loc[2])
        return loc

    # -- rvalues -----------------------------------------------------------
    def eval_operand(self, st, body, op, move_ok=True):
        if 'const' in op:
            c = op['const']
            if 'int' in c:
                return Const(c['int'], c['ty'])
            if 'fn' in c:
                return Unk(c['ty'], ('fn', c['fn']))
            return Unk(c['ty'], ('const', c.get('dbg')))
        place = op_place(op)
        loc = self.resolve(st, body, place)
        v = self.load(st, loc)
        if 'move' in op:
            if isinstance(v, Moved):
                raise Violation('use-after-move', 'move out of moved/uninitialised %s in %s' % (place_str(place), body.key))
            if loc[0] == 'obj':
                # moving the buffer out of a record (not generated today)
                raise Unanalysable('move of buffer out of record field in %s' % body.key)
            self.store(st, loc, MOVED)
            return v
        # copy
        if isinstance(v, (Own, Rec, Buf, MD)):
            if isinstance(v, Own):
                raise Violation('copy-of-owned', 'bitwise copy of owned value %s in %s' % (place_str(place), body.key))
            raise Unanalysable('copy of %r in %s' % (v, body.key))
        if isinstance(v, Moved):
            # copy of uninitialised plain data (e.g. unit); tolerate as unknown
            return Unk(place.get('ty'), ('uninit',))
        return copy.copy(v) if isinstance(v, (Unk, Const, Ref, Discr)) else copy.deepcopy(v)

    def eval_rvalue(self, st, body, rv, stmt):
        k = rv['k']
        if k == 'use':
            return self.eval_operand(st, body, rv['op'])
        if k == 'ref' or k == 'rawptr':
            loc = self.resolve(st, body, rv['place'])
            mut = (rv.get('bk') == 'mut') or bool(rv.get('mut'))
            return Ref(self.globalise(st, loc), mut, raw=(k == 'rawptr'))
        if k == 'copy_for_deref':
            loc = self.resolve(st, body, rv['place'])
            v = self.load(st, loc)
            return copy.copy(v)
        if k == 'cast':
            v = self.eval_operand(st, body, rv['op'])
            if isinstance(v, Ref):
                if rv['ck'] == 'Transmute':
                    return Unk(rv['ty'], ('addr',))
                return Ref(v.loc, v.mut, raw=True if rv['ck'] == 'PtrToPtr' else v.raw)
            if isinstance(v, (Unk, Const)):
                return Unk(rv['ty'], getattr(v, 'origin', None))
            raise Unanalysable('cast %s of %r in %s' % (rv['ck'], v, body.key))
        if k == 'bin':
            l = self.eval_operand(st, body, rv['l'])
            r = self.eval_operand(st, body, rv['r'])
            if isinstance(l, Const) and isinstance(r, Const):
                o = rv['op']
                try:
                    res = {'Eq': l.val == r.val, 'Ne': l.val != r.val, 'Lt': l.val < r.val,
                           'Le': l.val <= r.val, 'Gt': l.val > r.val, 'Ge': l.val >= r.val,
                           'BitAnd': l.val & r.val, 'BitOr': l.val | r.val,
                           'Add': l.val + r.val, 'Sub': l.val - r.val}.get(o)
                except TypeError:
                    res = None
                if res is not None:
                    return Const(int(res))
            return Unk(None, ('bin', rv['op'], getattr(l, 'origin', None), getattr(r, 'origin', None)))
        if k == 'un':
            o = self.eval_operand(st, body, rv['o'])
            if isinstance(o, Const) and rv['op'] == 'Not' and o.val in (0, 1):
                return Const(1 - o.val)
            return Unk(None, ('un', rv['op'], getattr(o, 'origin', None)))
        if k == 'discr':
            loc = self.resolve(st, body, rv['place'])
            v = self.load(st, loc)
            if isinstance(v, Enum) and v.variant is not None:
                names = self.enum_variants(v.ty)
                if names and v.variant in names:
                    return Const(names.index(v.variant))
            return Discr(loc)
        if k == 'aggregate':
            fields = [self.eval_operand(st, body, f) for f in rv['fields']]
            ak = rv['ak']
            if ak == 'adt':
                path = rv['adt']
                v = self.mod.record_variant_of_adt(path)
                if v is not None:
                    if len(fields) != 1 or not isinstance(fields[0], Buf):
                        raise Unanalysable('record literal of %s from %r' % (path, fields))
                    return self.make_record(st, body, v, fields[0].oid, stmt)
                if path == 'truc_runtime::data::RecordMaybeUninit':
                    raise Unanalysable('RecordMaybeUninit literal in generated code %s' % body.key)
                adt = self.crate.adts.get(path)
                names = rv.get('field_names') or []
                tyargs = ', '.join(a.get('ty') or a.get('const') for a in rv.get('args', []))
                ty = path + ('<%s>' % tyargs if tyargs else '')
                if adt is not None and adt['kind'] == 'Struct':
                    return Agg(ty, path, dict(zip(names, fields)), ('agg', path))
                if base_adt(path) in STD_ENUMS or (adt is not None and adt['kind'] == 'Enum'):
                    return Enum(ty, rv['variant'], dict(enumerate(fields)), ('agg', path, rv['variant']))
                # external struct (Range, PhantomData, AssertUnwindSafe …)
                return Agg(ty, path, dict(zip(names, fields)), ('agg', path))
            if ak == 'tuple':
                return Agg(None, None, dict(enumerate(fields)), ('tuple',))
            if ak == 'closure':
                return Agg(None, rv['closure'], dict(enumerate(fields)), ('closure', rv['closure']))
            if ak == 'array':
                return Agg(None, 'array', dict(enumerate(fields)), ('array',))
            raise Unanalysable('aggregate %s in %s' % (ak, body.key))
        if k == 'repeat':
            v = self.eval_operand(st, body, rv['op'])
            return Unk(None, ('repeat',))
        raise Unanalysable('rvalue %s in %s' % (rv.get('dbg', k), body.key))

    def enum_variants(self, ty):
        if ty is None:
            return None
        b = base_adt(ty)
        if b in STD_ENUMS:
            return STD_ENUMS[b]
        adt = self.crate.adts.get(b)
        if adt is not None and adt['kind'] == 'Enum':
            return [v['name'] for v in adt['variants']]
        return None

    def store_place(self, st, body, place, val, stmt):
        loc = self.resolve(st, body, place)
        if loc[0] == 'cell':
            # assignment through a reference into a cell: the old value must be plain
            c = st.objs[loc[1]].cells.get((loc[2], loc[3]))
            if c is not None and isinstance(c.val, Own) and c.state == 'owned':
                raise Violation('overwrite-owned', 'plain assignment over owned cell %r in %s' % (loc[2:], body.key))
            st.events.append(('assign_cell', loc[1], loc[2], loc[3], self.origin_of(st, val), fmt_span(stmt.get('span'))))
        self.store(st, loc, val)

    def origin_of(self, st, v):
        if isinstance(v, Own):
            return st.toks[v.tok].origin
        if isinstance(v, (Unk, Const, Agg, Enum)):
            return v.origin
        if isinstance(v, Ref):
            return ('ref', v.loc)
        return None

    # -- records -----------------------------------------------------------
    def make_record(self, st, body, v, oid, stmt):
        """`CappedRecord{v} { data }`.  The type invariant (the buffer owns exactly the droppable
        fields of the variant) is not required at the literal but wherever the record can be
        observed: when it is dropped (drop_value), handed to foreign code or returned
        (check_rec_invariant)."""
        b = st.objs[oid]
        b.in_record = True
        st.events.append(('mkrec', v, oid, fmt_span(stmt.get('span'))))
        return Rec(v, oid)

    def check_rec_invariant(self, st, rec, where, flags=None):
        flags = st.flags if flags is None else flags
        v = rec.v
        b = st.objs[rec.oid]
        if b.borrowed:
            return
        want = {(c.k, c.ty): c for c in self.mod.F[v]}
        for key, cell in b.cells.items():
            if cell.state != 'owned':
                continue
            if any(isinstance(x, Own) and st.toks[x.tok].state in ('live', 'returned') for x in cell.values()):
                if key not in want:
                    flags.append(('G-INV', 'CappedRecord%s is %s while its buffer still owns a %s at offset %d which is not a field of that variant (would leak) [%s]' % (v, where, key[1], key[0], self.entry.key)))
        for key, c in want.items():
            cell = b.cells.get(key)
            ok = cell is not None and cell.state == 'owned'
            if c.needs_drop:
                if not ok or not isinstance(cell.val, Own):
                    flags.append(('G-INV', 'CappedRecord%s is %s but its droppable field `%s` (%s at %d) is not owned by the buffer (its destructor would read garbage / a moved-out value) [%s]' % (v, where, c.name, c.ty, c.k, self.entry.key)))

    def toks_in(self, st, v, out):
        if isinstance(v, Own):
            out.add(v.tok)
        elif isinstance(v, (Rec, Buf)):
            for cell in st.objs[v.oid].cells.values():
                for x in cell.values():
                    self.toks_in(st, x, out)
        elif isinstance(v, Agg):
            for f in v.fields.values():
                self.toks_in(st, f, out)
        elif isinstance(v, Enum):
            for f in v.payload.values():
                self.toks_in(st, f, out)
        elif isinstance(v, MD):
            self.toks_in(st, v.inner, out)

    def recs_in(self, v):
        if isinstance(v, Rec):
            yield v
        elif isinstance(v, Agg):
            for f in v.fields.values():
                yield from self.recs_in(f)
        elif isinstance(v, Enum):
            for f in v.payload.values():
                yield from self.recs_in(f)
        elif isinstance(v, MD):
            yield from self.recs_in(v.inner)

    def drop_value(self, st, body, v, why):
        """Runs the abstract destructor of a value."""
        if isinstance(v, Own):
            t = st.toks[v.tok]
            if t.state == 'live':
                t.state = 'dropped'
            elif t.state == 'borrowed' and t.origin and t.origin[0] == 'arg' and t.origin[1] in getattr(self, 'mut_params', {}) and self.entry_kind != 'drop':
                # behind `&mut`: the old value may be destroyed provided a valid one is in place
                # at every exit (checked in finish)
                t.state = 'dropped'
            elif t.state == 'borrowed':
                st.flags.append(('G-OWN', 'drop of a value borrowed from the caller (%s) [%s]' % (t.origin, body.key)))
            else:
                st.flags.append(('G-DOUBLE', 'value of type %s (origin %s) dropped after it was already %s [%s; %s]' % (t.ty, t.origin, t.state, body.key, why)))
            return
        if isinstance(v, Rec):
            b = st.objs[v.oid]
            for c in self.mod.F[v.v]:
                if not c.needs_drop:
                    continue
                cell = b.cells.get((c.k, c.ty))
                if cell is None or cell.state != 'owned' or not isinstance(cell.val, Own):
                    st.flags.append(('G-DOUBLE', 'drop of CappedRecord%s whose field `%s` (%s at %d) is %s: its destructor reads that value again [%s; %s]' % (
                        v.v, c.name, c.ty, c.k, 'absent' if cell is None else cell.state, body.key, why)))
                    continue
                self.drop_value(st, body, cell.take(), why)
            for key, cell in b.cells.items():
                if any(isinstance(x, Own) and st.toks[x.tok].state == 'live' for x in cell.values()):
                    st.flags.append(('G-LEAK', 'drop of CappedRecord%s leaves an owned %s at offset %d that is not one of its fields [%s]' % (v.v, key[1], key[0], body.key)))
            return
        if isinstance(v, Buf):
            # RecordMaybeUninit has no destructor: owned cells are leaked (checked at exit)
            return
        if isinstance(v, Agg):
            for f in v.fields.values():
                self.drop_value(st, body, f, why)
            return
        if isinstance(v, Enum):
            for f in v.payload.values():
                self.drop_value(st, body, f, why)
            return
        if isinstance(v, MD):
            return
        return

    def exec_drop(self, st, body, t, work, outcomes):
        loc = self.resolve(st, body, t['place'])
        v = self.load(st, loc)
        ty = t['place']['ty']
        can_unwind = self.needs_drop(ty)
        if isinstance(v, Moved):
            # drop of a moved-out place: rustc guards these with drop flags; reaching one
            # with the value gone means a double drop.
            st.flags.append(('G-DOUBLE', 'drop of moved-out place %s [%s]' % (place_str(t['place']), body.key)))
        else:
            self.drop_value(st, body, v, 'drop(%s)' % place_str(t['place']))
            if loc[0] != 'cell':
                self.store(st, loc, MOVED)
        if can_unwind and isinstance(t['unwind'], int):
            st2 = st.fork()
            st2.dtor_panic = True
            work.append((st2, t['unwind']))
        elif can_unwind and t['unwind'] == 'continue':
            st2 = st.fork()
            st2.dtor_panic = True
            frame = st2.frames.pop()
            self.unwind_frame(st2, body, frame)
            outcomes.append(('unwind', st2, None))
        return t['t']

    def exec_switch(self, st, body, t, work):
        v = self.eval_operand(st, body, t['d'])
        targets = t['targets']
        if isinstance(v, Const):
            for val, bb in targets:
                if val == v.val:
                    return bb
            return t['otherwise']
        # unknown: fork every target
        names = None
        loc = None
        if isinstance(v, Discr):
            loc = v.loc
            ev = self.load(st, loc)
            if isinstance(ev, Own) and self.enum_variants(st.toks[ev.tok].ty) is not None:
                ev = self.decompose(st, loc, ev)
            if isinstance(ev, Unk):
                ev = Enum(ev.ty, None, {}, ev.origin or ('?',))
                self.store(st, loc, ev)
            if isinstance(ev, Enum):
                names = self.enum_variants(ev.ty)
        all_targets = [(val, bb) for val, bb in targets]
        covered = set(val for val, _ in targets)
        succ = []
        for val, bb in all_targets:
            st2 = st.fork()
            if loc is not None and names and val < len(names):
                ev2 = self.load(st2, loc)
                if isinstance(ev2, Enum):
                    ev2.variant = names[val]
            succ.append((st2, bb))
        # otherwise edge: feasible unless the enumerated values cover all variants
        other_feasible = True
        if names is not None and all(i in covered for i in range(len(names))):
            other_feasible = False
        if names is not None and len(names) - len(covered) == 1 and other_feasible:
            missing = [i for i in range(len(names)) if i not in covered][0]
            st2 = st.fork()
            ev2 = self.load(st2, loc)
            if isinstance(ev2, Enum):
                ev2.variant = names[missing]
            succ.append((st2, t['otherwise']))
        elif other_feasible:
            succ.append((st.fork(), t['otherwise']))
        for s2, bb in succ[1:]:
            work.append((s2, bb))
        s0, bb0 = succ[0]
        # continue on the first successor in place
        st.__dict__.update(s0.__dict__)
        return bb0

    # -- calls -------------------------------------------------------------
    def exec_call(self, st, body, bb, t, depth, work, outcomes):
        c = t['callee']
        if 'path' not in c:
            return self.exec_indirect_call(st, body, t, work, outcomes)
        path = callee_path(t, resolved=True)
        decl = c['path']
        args = [self.eval_operand(st, body, a) for a in t['args']]
        span = fmt_span(t['span'])
        results = self.call_transfer(st, body, t, path, decl, args, span, depth)
        # results: list of (kind, state, retval)
        cont = None
        for kind, s2, ret in results:
            if kind == 'return':
                if t['t'] is None:
                    continue  # diverging
                self.store_place(s2, body, t['dest'], ret, t)
                if cont is None:
                    cont = s2
                else:
                    work.append((s2, t['t']))
            else:
                if isinstance(t['unwind'], int):
                    work.append((s2, t['unwind']))
                elif t['unwind'] == 'continue':
                    frame = s2.frames.pop()
                    self.unwind_frame(s2, body, frame)
                    outcomes.append(('unwind', s2, None))
                # 'unreachable' / 'terminate': path ends
        if cont is None:
            return None
        if cont is not st:
            st.__dict__.update(cont.__dict__)
        return t['t']

    def exec_indirect_call(self, st, body, t, work, outcomes):
        raise Unanalysable('indirect call in %s' % body.key)

    def unwind_frame(self, st, body, frame):
        """Unwinding out of a frame with `unwind continue`: rustc emitted no cleanup
        block, i.e. nothing in this frame needs dropping at this point."""
        self.check_frame_exit(st, body, frame, 'unwind')

    def check_frame_exit(self, st, body, frame, kind):
        """Locals of a popped frame that still own something are leaks (MIR would have
        dropped them otherwise); buffers/records/ManuallyDrop are where leaks hide."""
        for l, v in frame.items():
            if l == 0 and kind == 'return':
                continue
            self.leak_scan(st, body, v, 'local _%s at %s' % (l, kind))

    def leak_scan(self, st, body, v, where):
        if st.dtor_panic:
            return
        if isinstance(v, Own):
            t = st.toks[v.tok]
            if t.state == 'live':
                st.flags.append(('G-LEAK', 'value of type %s (origin %s) is never dropped: %s [%s]' % (t.ty, t.origin, where, body.key)))
                t.state = 'leaked'
        elif isinstance(v, (Rec, Buf)):
            b = st.objs[v.oid]
            if b.borrowed:
                return
            for key, cell in b.cells.items():
                for x in cell.values():
                    if not isinstance(x, Own):
                        continue
                    tk = st.toks[x.tok]
                    if tk.state == 'live':
                        st.flags.append(('G-LEAK', '%s at offset %d of a %s goes out of scope without being dropped: %s [%s]' % (
                            key[1], key[0], 'record' if isinstance(v, Rec) else 'bare buffer', where, body.key)))
                        tk.state = 'leaked'
        elif isinstance(v, MD):
            self.leak_scan(st, body, v.inner, where + ' (inside ManuallyDrop)')
        elif isinstance(v, Agg):
            for f in v.fields.values():
                self.leak_scan(st, body, f, where)
        elif isinstance(v, Enum):
            for f in v.payload.values():
                self.leak_scan(st, body, f, where)

    def is_no_unwind(self, path, decl):
        if path in NO_UNWIND_EXTERNAL or decl in NO_UNWIND_EXTERNAL:
            return True
        if path.startswith(PRIM_PREFIX):
            return self.mod.prims_no_unwind
        return False

    def call_transfer(self, st, body, t, path, decl, args, span, depth):
        mod = self.mod
        tyargs = callee_ty_args(t, resolved=True) if 'resolved' in t['callee'] else callee_ty_args(t)
        has_unwind_edge = t['unwind'] != 'unreachable' and t['unwind'] != 'terminate'

        # ---- runtime primitives -------------------------------------------
        if path.startswith(PRIM_PREFIX):
            name = path[len(PRIM_PREFIX):]
            return self.prim(st, body, t, name, args, span)

        # ---- local (generated) callee: inline ------------------------------
        callee_body = self.crate.body(path)
        if callee_body is not None and path.startswith(mod.prefix + '::') or (callee_body is not None and path.startswith('<' + mod.prefix + '::')) or (callee_body is not None and ('<' + mod.prefix + '::') in path):
            st.events.append(('enter', path, span))
            frame = {}
            for i, a in enumerate(args):
                frame[i + 1] = a
            st.frames.append(frame)
            outs = self.exec_body(st, callee_body, depth + 1)
            for kind, s2, ret in outs:
                s2.events.append(('leave', path, kind))
            return outs

        # ---- known core functions -----------------------------------------
        if path == 'core::mem::manually_drop::ManuallyDrop::<T>::new':
            st.events.append(('manually_drop_new', self.describe(st, args[0]), span))
            return [('return', st, MD(args[0]))]
        if path == 'core::mem::manually_drop::ManuallyDrop::<T>::into_inner':
            if isinstance(args[0], MD):
                return [('return', st, args[0].inner)]
            raise Unanalysable('into_inner of %r' % (args[0],))
        if path in ('<core::mem::manually_drop::ManuallyDrop<T> as core::ops::deref::Deref>::deref',
                    '<core::mem::manually_drop::ManuallyDrop<T> as core::ops::deref::DerefMut>::deref_mut'):
            r = args[0]
            if isinstance(r, Ref):
                return [('return', st, Ref(('mdinner', r.loc), r.mut))]
            raise Unanalysable('deref of %r' % (r,))
        if path == 'core::mem::forget':
            v = args[0]
            st.events.append(('forget', self.describe(st, v), span))
            self.forget_value(st, body, v, span)
            return [('return', st, Unk('()', ('unit',)))]
        if path == 'core::mem::drop':
            self.drop_value(st, body, args[0], 'mem::drop at ' + span)
            return [('return', st, Unk('()', ('unit',)))]
        if path in ('core::ptr::read', 'core::ptr::read_unaligned'):
            return self.ptr_read(st, body, t, args, tyargs, span)
        if path in ('core::ptr::write', 'core::ptr::write_unaligned'):
            raise Unanalysable('direct ptr::write in generated code at %s' % span)
        if path == 'core::ptr::drop_in_place':
            raise Unanalysable('drop_in_place in generated code at %s' % span)
        if path == 'core::mem::transmute' or path == 'core::intrinsics::transmute':
            raise Unanalysable('transmute in generated code at %s' % span)

        # ---- anything else: opaque external call ---------------------------
        return self.opaque_call(st, body, t, path, decl, args, tyargs, span, has_unwind_edge)

    def describe(self, st, v):
        if isinstance(v, Rec):
            return ('rec', v.v, v.oid)
        if isinstance(v, Buf):
            return ('buf', v.oid)
        if isinstance(v, MD):
            return ('md', self.describe(st, v.inner))
        return ('val', self.origin_of(st, v))

    def forget_value(self, st, body, v, span):
        if isinstance(v, Own):
            t = st.toks[v.tok]
            if t.state == 'live':
                st.flags.append(('G-LEAK', 'mem::forget of a live %s (origin %s) at %s [%s]' % (t.ty, t.origin, span, body.key)))
                t.state = 'leaked'
        elif isinstance(v, (Rec, Buf)):
            b = st.objs[v.oid]
            for key, cell in b.cells.items():
                for x in cell.values():
                    if isinstance(x, Own) and st.toks[x.tok].state == 'live':
                        st.flags.append(('G-LEAK', 'mem::forget of a record that still owns a %s at offset %d (never dropped) at %s [%s]' % (key[1], key[0], span, body.key)))
                        st.toks[x.tok].state = 'leaked'
        elif isinstance(v, Agg):
            for f in v.fields.values():
                self.forget_value(st, body, f, span)
        elif isinstance(v, MD):
            self.forget_value(st, body, v.inner, span)

    def ptr_read(self, st, body, t, args, tyargs, span):
        r = args[0]
        T = tyargs[0] if tyargs else None
        if not isinstance(r, Ref):
            raise Unanalysable('ptr::read of %r at %s' % (r, span))
        src = self.load(st, r.loc)
        if isinstance(src, Buf):
            # bitwise duplicate of a buffer: ownership of every cell moves to the copy
            sb = st.objs[src.oid]
            if sb.borrowed:
                st.flags.append(('G-OWN', 'bitwise copy of a buffer borrowed from the caller at %s [%s]' % (span, body.key)))
            noid = st.fresh()
            nb = BufObj()
            nb.in_record = False
            for key, cell in sb.cells.items():
                nb.cells[key] = Cell(cell.k, cell.ty, cell.val, cell.state, list(cell.more))
                if cell.state == 'owned':
                    cell.state = 'dup'
                    cell.more = []
                    if isinstance(cell.val, Own):
                        st.toks[cell.val.tok].where = ('cell', noid, cell.k, cell.ty)
            st.objs[noid] = nb
            st.events.append(('dup_buffer', src.oid, noid, self.owner_kind(st, r.loc), span))
            return [('return', st, Buf(noid))]
        raise Unanalysable('ptr::read::<%s> of %r at %s' % (T, src, span))

    def owner_kind(self, st, loc):
        """Is the location inside a ManuallyDrop?"""
        seen = loc
        while True:
            if seen[0] == 'mdinner':
                return 'manually_drop'
            if seen[0] in ('sub',):
                seen = seen[1]
                continue
            if seen[0] == 'obj':
                # find who holds this object
                return self.holder_of(st, seen[1])
            return 'plain'

    def holder_of(self, st, oid):
        def scan(v, in_md):
            if isinstance(v, (Rec, Buf)) and v.oid == oid:
                return 'manually_drop' if in_md else 'plain'
            if isinstance(v, MD):
                return scan(v.inner, True)
            if isinstance(v, Agg):
                for f in v.fields.values():
                    r = scan(f, in_md)
                    if r:
                        return r
            if isinstance(v, Enum):
                for f in v.payload.values():
                    r = scan(f, in_md)
                    if r:
                        return r
            return None
        for fr in st.frames:
            for v in fr.values():
                r = scan(v, False)
                if r:
                    return r
        for v in st.hidden.values():
            r = scan(v, False)
            if r:
                return r
        return 'unknown'

    def opaque_call(self, st, body, t, path, decl, args, tyargs, span, has_unwind_edge):
        origins = []
        for a in args:
            origins.append(self.describe_arg(st, a))
            if isinstance(a, (Rec, Buf, MD)):
                raise Unanalysable('record/buffer passed by value to external %s at %s' % (path, span))
            if isinstance(a, Ref) and a.mut:
                tgt = None
                try:
                    tgt = self.load(st, a.loc)
                except Unanalysable:
                    pass
                if isinstance(tgt, (Buf,)):
                    raise Unanalysable('&mut buffer passed to external %s at %s' % (path, span))
            self.pass_value(st, a)
        callsite = len(st.events)
        st.events.append(('call', path, decl, tuple(tyargs), tuple(origins), span))
        ret_ty = t['dest']['ty']
        outs = []
        if has_unwind_edge and not self.is_no_unwind(path, decl):
            s2 = st.fork()
            s2.events.append(('unwound', path, span))
            outs.append(('unwind', s2, None))
        ret = self.init_value(st, ret_ty, ('call', path, callsite, tuple(origins)))
        outs.insert(0, ('return', st, ret))
        return outs

    def describe_arg(self, st, a):
        if isinstance(a, Ref):
            loc = a.loc
            if loc[0] == 'cell':
                b = st.objs[loc[1]]
                c = b.cells.get((loc[2], loc[3]))
                o = self.origin_of(st, c.val) if c is not None else None
                return ('ref_cell', loc[1], loc[2], loc[3], a.mut, o)
            try:
                v = self.load(st, loc)
            except Unanalysable:
                return ('ref', '?')
            return ('ref', self.describe_arg(st, v))
        if isinstance(a, Own):
            return ('own', st.toks[a.tok].origin)
        if isinstance(a, Agg):
            return ('agg', a.adt, tuple((k, self.describe_arg(st, v)) for k, v in a.fields.items()))
        if isinstance(a, Enum):
            return ('enum', a.variant, a.origin, tuple((k, self.describe_arg(st, v)) for k, v in a.payload.items()))
        if isinstance(a, Const):
            return ('const', a.val)
        if isinstance(a, Unk):
            return ('val', a.origin)
        if isinstance(a, Rec):
            return ('rec', a.v, a.oid)
        return ('?',)

    def pass_value(self, st, a):
        if isinstance(a, Rec):
            self.check_rec_invariant(st, a, 'passed to foreign code')
        if isinstance(a, Own):
            t = st.toks[a.tok]
            if t.state == 'live':
                t.state = 'passed'
        elif isinstance(a, Agg):
            for f in a.fields.values():
                self.pass_value(st, f)
        elif isinstance(a, Enum):
            for f in a.payload.values():
                self.pass_value(st, f)

    # -- primitives ----------------------------------------------------------
    def prim(self, st, body, t, name, args, span):
        mod = self.mod
        tyargs = callee_ty_args(t)
        if name == 'new':
            oid = st.fresh()
            st.objs[oid] = BufObj()
            st.events.append(('buf_new', oid, span))
            return [('return', st, Buf(oid))]
        if name not in ('read', 'write', 'get', 'get_mut'):
            raise Unanalysable('unknown runtime primitive %s at %s' % (name, span))
        if not tyargs:
            raise Unanalysable('primitive %s without type argument at %s' % (name, span))
        T = tyargs[-1]
        recv = args[0]
        if not isinstance(recv, Ref):
            raise Unanalysable('primitive receiver %r at %s' % (recv, span))
        target = self.load(st, recv.loc)
        if not isinstance(target, Buf):
            raise Unanalysable('primitive receiver points to %r at %s' % (target, span))
        oid = target.oid
        b = st.objs[oid]
        off = args[1]
        if not isinstance(off, Const):
            raise Unanalysable('non-constant offset in %s at %s' % (name, span))
        k = off.val
        ti = self.tinfo(T)
        if 'size' not in ti:
            raise Unanalysable('no layout for %s at %s' % (T, span))
        size, align = ti['size'], ti['align']
        in_record = b.in_record and recv.loc[0] == 'obj'
        mod.accesses.append({'fn': self.entry.key, 'in': body.key, 'prim': name, 'k': k, 'ty': T, 'size': size,
                             'align': align, 'in_record': in_record, 'span': span})
        key = (k, T)
        if name == 'write':
            val = args[2]
            # overlap with owned cells
            for (ck, cty), cell in b.cells.items():
                csz = self.tinfo(cty).get('size', 0)
                if cell.state != 'owned':
                    continue
                if size == 0 and (ck, cty) == key:
                    continue   # another zero-size value of the same type at the same place
                overlap = (ck < k + size and k < ck + csz) and size > 0 and csz > 0
                same_zst = (size == 0 and csz == 0 and (ck, cty) == key)
                if (overlap or same_zst or (ck, cty) == key) and isinstance(cell.val, Own) and st.toks[cell.val.tok].state in ('live', 'borrowed'):
                    st.flags.append(('G-STORE', 'write::<%s>(%d) lands on bytes [%d,%d) that still own a %s (never dropped) at %s [%s]' % (
                        T, k, ck, ck + csz, cty, span, body.key)))
                elif overlap and (ck, cty) != key:
                    st.flags.append(('G-STORE', 'write::<%s>(%d) overlaps initialised field bytes [%d,%d) of type %s at %s [%s]' % (
                        T, k, ck, ck + csz, cty, span, body.key)))
            if isinstance(val, (Rec, Buf, MD)):
                raise Unanalysable('record stored inside record at %s' % span)
            if isinstance(val, Moved):
                raise Violation('use-after-move', 'write of moved value at %s' % span)
            old = b.cells.get(key)
            if size == 0 and old is not None and old.state == 'owned':
                old.more.append(old.val)
                old.val = val
            else:
                b.cells[key] = Cell(k, T, val)
            if isinstance(val, Own):
                st.toks[val.tok].where = ('cell', oid, k, T)
            st.events.append(('write', oid, k, T, self.origin_of(st, val), in_record, span))
            return [('return', st, Unk('()', ('unit',)))]
        cell = b.cells.get(key)
        if name == 'read':
            if cell is None:
                # reading bytes the abstract state knows nothing about
                other = [c for c in b.cells.values() if c.k == k and c.state == 'owned']
                if self.needs_drop(T, True) or other:
                    st.flags.append(('G-TYPE', 'read::<%s>(%d): no value of that type is stored there%s at %s [%s]' % (
                        T, k, (' (a %s is)' % other[0].ty) if other else '', span, body.key)))
                st.events.append(('read', oid, k, T, None, span))
                return [('return', st, self.init_value(st, T, ('read?', oid, k)))]
            if cell.state != 'owned':
                if self.needs_drop(T, True):
                    st.flags.append(('G-DOUBLE', 'read::<%s>(%d): the value was already %s (second owner created) at %s [%s]' % (
                        T, k, 'moved out' if cell.state == 'moved' else 'duplicated into another buffer', span, body.key)))
                st.events.append(('read', oid, k, T, None, span))
                return [('return', st, Unk(T, ('read-moved', oid, k)))]
            val = cell.val
            if b.borrowed and isinstance(val, Own) and st.toks[val.tok].state == 'borrowed' and self.entry_kind != 'drop':
                st.flags.append(('G-OWN', 'read::<%s>(%d) moves a droppable value out of a record that is only borrowed at %s [%s]' % (T, k, span, body.key)))
            cell.take()
            if isinstance(val, Own):
                tk = st.toks[val.tok]
                tk.where = None
                if tk.state == 'borrowed':
                    tk.state = 'live'      # Drop::drop takes the values over
            st.events.append(('read', oid, k, T, self.origin_of(st, val), span))
            return [('return', st, val)]
        # get / get_mut
        if cell is None or cell.state != 'owned':
            if self.needs_drop(T, True) or cell is not None:
                st.flags.append(('G-TYPE', '%s::<%s>(%d): %s at %s [%s]' % (
                    name, T, k, 'no value of that type is stored there' if cell is None else 'the value was moved out', span, body.key)))
            if cell is None:
                b.cells[key] = Cell(k, T, Unk(T, ('uninit', oid, k)))
        st.events.append((name, oid, k, T, span))
        return [('return', st, Ref(('cell', oid, k, T), name == 'get_mut'))]

    # -- exit ------------------------------------------------------------------
    def finish(self, kind, st, ret):
        """Exit obligations for the entry function (DESIGN §2.4 step 4)."""
        flags = list(st.flags)
        if kind == 'return' and ret is not None:
            for r in self.recs_in(ret):
                self.check_rec_invariant(st, r, 'returned', flags)
            self.mark_returned(st, ret)
        # what sits behind a `&mut` parameter at an exit is handed back to the caller: it must be a
        # valid value, and it takes its live values with it
        for i, hid in getattr(self, 'mut_params', {}).items():
            v = st.hidden.get(hid)
            if v is None or st.dtor_panic or self.entry_kind == 'drop':
                continue   # (what Drop::drop leaves behind is dead storage)
            if isinstance(v, Moved):
                flags.append(('G-INV', 'the value behind `&mut` parameter %d was moved out and not replaced on the %s path [%s]' % (i, kind, self.entry.key)))
                continue
            for r in self.recs_in(v):
                st.objs[r.oid].borrowed = False
                self.check_rec_invariant(st, r, 'left behind `&mut` parameter %d on the %s path' % (i, kind), flags)
            reach = set()
            self.toks_in(st, v, reach)
            for tid, tk in st.toks.items():
                if tk.state == 'borrowed' and tk.origin and tk.origin[:2] == ('arg', i) and tid not in reach:
                    flags.append(('G-LEAK', 'the %s that was behind `&mut` parameter %d (origin %s) is no longer there on the %s path and was not dropped [%s]' % (tk.ty, i, tk.origin, kind, self.entry.key)))
            self.mark_returned(st, v)
        # parameters by reference: borrowed tokens must still be in place, except Drop::drop
        for tid, tk in st.toks.items():
            if tk.state == 'live' and not st.dtor_panic:
                flags.append(('G-LEAK', 'value of type %s (origin %s) is neither dropped nor handed back on the %s path [%s]' % (
                    tk.ty, tk.origin, kind, self.entry.key)))
        if self.entry_kind == 'drop':
            for tid, tk in st.toks.items():
                if tk.state == 'borrowed' and kind == 'return':
                    flags.append(('G-LEAK', 'Drop::drop returns without dropping %s (origin %s) [%s]' % (tk.ty, tk.origin, self.entry.key)))
        return flags

    def mark_returned(self, st, v):
        if isinstance(v, Own):
            t = st.toks[v.tok]
            if t.state == 'live':
                t.state = 'returned'
            elif t.state in ('dropped', 'passed'):
                st.flags.append(('G-DOUBLE', 'returned value of type %s (origin %s) was already %s' % (t.ty, t.origin, t.state)))
        elif isinstance(v, (Rec, Buf)):
            b = st.objs[v.oid]
            for cell in b.cells.values():
                for x in cell.values():
                    self.mark_returned(st, x)
        elif isinstance(v, Agg):
            for f in v.fields.values():
                self.mark_returned(st, f)
        elif isinstance(v, Enum):
            for f in v.payload.values():
                self.mark_returned(st, f)
        elif isinstance(v, MD):
            self.mark_returned(st, v.inner)
