"""SRC: repository-specific rules over the MIR of truc and truc_runtime (DESIGN §2.3, §3).

Every rule returns findings and a list of the instances it examined; a rule
that matches fewer instances than its floor fails closed.
"""
import re
from collections import defaultdict

from mirlib import (feasible_reach, paths_reaching, callee_path, callee_decl_path, callee_ty_args, op_place, op_local, op_int,
                    local_defs, single_def, trace_value, fmt_span, place_str, op_str)


USIZE_MAX = (1 << 64) - 1


class SrcFinding:
    def __init__(self, props, rule, where, msg, key):
        self.props = props
        self.rule = rule
        self.where = where
        self.msg = msg
        self.key = key
    def to_json(self):
        return {'props': self.props, 'rule': self.rule, 'fn': self.where, 'msg': self.msg, 'key': '%s|%s' % (self.rule, self.key),
                'module': None, 'tag': None}


class Ctx:
    def __init__(self):
        self.findings = []
        self.instances = defaultdict(list)   # rule -> [instance description]
    def add(self, props, rule, where, msg, key=None):
        self.findings.append(SrcFinding(props, rule, where, msg, key or where))
    def inst(self, rule, desc):
        self.instances[rule].append(desc)
    def floor(self, props, rule, n):
        got = len(self.instances[rule])
        if got < n:
            self.add(props, rule + '-FLOOR', None,
                     'rule %s matched %d instances, %d were confirmed by reading the pinned tree (anchor lost: fail closed)' % (rule, got, n),
                     key='floor')


# --------------------------------------------------------------------------
# R-PRIM: the four storage primitives of truc_runtime::data

PRIM = 'truc_runtime::data::RecordMaybeUninit::<CAP>::'
ALIGNED_ACCESS = {'core::ptr::read': True, 'core::ptr::write': True,
                  'core::ptr::read_unaligned': False, 'core::ptr::write_unaligned': False,
                  'core::ptr::const_ptr::<impl *const T>::read': True,
                  'core::ptr::mut_ptr::<impl *mut T>::read': True,
                  'core::ptr::mut_ptr::<impl *mut T>::write': True,
                  'core::ptr::const_ptr::<impl *const T>::read_unaligned': False,
                  'core::ptr::mut_ptr::<impl *mut T>::read_unaligned': False,
                  'core::ptr::mut_ptr::<impl *mut T>::write_unaligned': False}
PTR_CAST = {'core::ptr::const_ptr::<impl *const T>::cast', 'core::ptr::mut_ptr::<impl *mut T>::cast',
            'core::ptr::const_ptr::<impl *const T>::cast_mut', 'core::ptr::mut_ptr::<impl *mut T>::cast_const'}
PTR_ADD = {'core::ptr::const_ptr::<impl *const T>::add', 'core::ptr::mut_ptr::<impl *mut T>::add',
           'core::ptr::const_ptr::<impl *const T>::byte_add', 'core::ptr::mut_ptr::<impl *mut T>::byte_add'}
SLICE_PTR = {'core::slice::<impl [T]>::as_ptr': False, 'core::slice::<impl [T]>::as_mut_ptr': True,
             'core::array::<impl [T; N]>::as_ptr': False, 'core::array::<impl [T; N]>::as_mut_ptr': True,
             # the buffer held as one MaybeUninit<[u8; CAP]>
             'core::mem::maybe_uninit::MaybeUninit::<T>::as_ptr': False, 'core::mem::maybe_uninit::MaybeUninit::<T>::as_mut_ptr': True}


def pointer_chain(body, defs, op):
    """Trace a raw pointer back to the borrow it derives from.
    Returns dict(adds=[offset operand...], root=('ref', bk, place) | other, mutable_root=bool, other=[...])."""
    adds, other = [], []
    cur = op
    root = None
    mutable = None
    for _ in range(32):
        steps = trace_value(body, defs, cur)
        term = steps[-1]
        if term[0] == 'call':
            t = term[1]
            p = callee_path(t)
            if p in PTR_CAST:
                cur = t['args'][0]
                continue
            if p in PTR_ADD:
                adds.append(t['args'][1])
                cur = t['args'][0]
                continue
            if p in SLICE_PTR:
                mutable = SLICE_PTR[p]
                cur = t['args'][0]
                continue
            if p in ('core::slice::<impl [T]>::get_unchecked', 'core::slice::<impl [T]>::get_unchecked_mut') and len(t['args']) == 2:
                # the tail sub-slice `buffer.get_unchecked(offset..)`: the same address as `buffer + offset`
                rng = trace_value(body, defs, t['args'][1])[-1]
                if rng[0] == 'rv' and rng[1]['k'] == 'aggregate' and rng[1].get('adt') == 'core::ops::range::RangeFrom':
                    adds.append(rng[1]['fields'][0])
                    if mutable is None:
                        mutable = p.endswith('_mut')
                    cur = t['args'][0]
                    continue
            other.append(p)
            root = ('call', p)
            break
        if term[0] == 'ref':
            root = term
            break
        root = term
        break
    return {'adds': adds, 'root': root, 'via_mut_ptr': mutable, 'other': other}


def alignment_guarded(b, defs, bb):
    """Is block bb only reachable through the `true` edge of a recognised alignment test
    (`p.is_aligned()`, `addr % align_of::<T>() == 0`, `addr & (align_of::<T>() - 1) == 0`,
    `p.align_offset(align_of::<T>()) == 0`)?"""
    dom = b.dominators(unwind=False)
    for sb in dom.get(bb, set()):
        blk = b.blocks[sb]
        t = blk['term']
        if t['k'] != 'switch' or sb == bb:
            continue
        x = trace_value(b, defs, t['d'])[-1]
        good_edge = None
        tg = dict(t['targets'])
        if x[0] == 'call' and (callee_path(x[1]) or '').endswith('::is_aligned'):
            good_edge = t['otherwise'] if 0 in tg else tg.get(1)
        elif x[0] == 'rv' and x[1]['k'] == 'bin' and x[1]['op'] in ('Eq', 'Ne'):
            zero = op_int(x[1]['r']) == 0 or op_int(x[1]['l']) == 0
            other = x[1]['l'] if op_int(x[1]['r']) == 0 else x[1]['r']
            y = trace_value(b, defs, other)[-1]
            recognised = False
            if zero and y[0] == 'rv' and y[1]['k'] == 'bin':
                def is_align(op):
                    z = trace_value(b, defs, op)[-1]
                    return z[0] == 'call' and callee_path(z[1]) == 'core::mem::align_of'
                if y[1]['op'] == 'Rem' and is_align(y[1]['r']):
                    recognised = True
                if y[1]['op'] == 'BitAnd':
                    for side in ('l', 'r'):
                        m = trace_value(b, defs, y[1][side])[-1]
                        if m[0] == 'rv' and m[1]['k'] == 'bin' and m[1]['op'] in ('Sub', 'SubUnchecked') and is_align(m[1]['l']) and op_int(m[1]['r']) == 1:
                            recognised = True
                        if m[0] == 'place' and m[1]['p'] and isinstance(m[1]['p'][-1], dict) and m[1]['p'][-1].get('f') == 0:
                            # (align - 1) computed with an overflow check: _x.0 of SubWithOverflow
                            d = single_def(defs, m[1]['l'])
                            if d and d[0] == 'stmt' and d[3]['rv']['k'] == 'bin' and d[3]['rv']['op'] == 'SubWithOverflow' and is_align(d[3]['rv']['l']) and op_int(d[3]['rv']['r']) == 1:
                                recognised = True
            elif zero and y[0] == 'call' and (callee_path(y[1]) or '').endswith('::align_offset'):
                a1 = trace_value(b, defs, y[1]['args'][1])[-1]
                recognised = a1[0] == 'call' and callee_path(a1[1]) == 'core::mem::align_of'
            if recognised:
                eq = x[1]['op'] == 'Eq'
                true_edge = t['otherwise'] if 0 in tg else tg.get(1)
                false_edge = tg.get(0)
                good_edge = true_edge if eq else false_edge
        else:
            # `match addr % align_of::<T>() { 0 => .. }`, alone or as a component of a matched tuple: the
            # switch is on the remainder itself and the edge taken for 0 is the aligned one
            y = x
            if y[0] == 'place' and y[1]['p'] and isinstance(y[1]['p'][-1], dict) and 'f' in y[1]['p'][-1] and len(y[1]['p']) == 1:
                d = single_def(defs, y[1]['l'])
                if d and d[0] == 'stmt' and d[3]['rv']['k'] == 'aggregate':
                    fl = d[3]['rv'].get('fields') or []
                    fi = y[1]['p'][-1]['f']
                    if isinstance(fi, int) and fi < len(fl):
                        y = trace_value(b, defs, fl[fi])[-1]
            if y[0] == 'rv' and y[1]['k'] == 'bin' and y[1]['op'] == 'Rem':
                z = trace_value(b, defs, y[1]['r'])[-1]
                if z[0] == 'call' and callee_path(z[1]) == 'core::mem::align_of' and 0 in tg:
                    good_edge = tg[0]
        if good_edge is None:
            continue
        if bb not in b.reachable(0, unwind=False, removed_edges=[(sb, good_edge)]):
            return True
    return False


def rule_prim(ctx, crate):
    """R-PRIM (C04, C07): per primitive: touches exactly base+offset; stores and `&mut`
    go through a pointer with write provenance; alignment requirement of the access."""
    summary = {'no_unwind': True}
    for name in ('read', 'write', 'get', 'get_mut'):
        b = crate.body(PRIM + name)
        if b is None:
            ctx.add(['C04', 'C07'], 'R-PRIM', PRIM + name, 'primitive not found (anchor lost)', key=name)
            continue
        defs = local_defs(b)
        access = None      # (pointer operand, aligned, is_store)
        accesses = []
        for bb, t in b.calls():
            p = callee_path(t)
            if p in ALIGNED_ACCESS:
                al = ALIGNED_ACCESS[p]
                if al and alignment_guarded(b, defs, bb):
                    al = False      # only reached when a recognised alignment test of the address succeeded
                accesses.append((t['args'][0], al, 'write' in p, fmt_span(t['span'])))
        # bulk copies (copy_nonoverlapping / copy / write_bytes …) move a number of bytes chosen by the
        # code: it must be exactly one T (count 1 of T, or size_of::<T>() bytes)
        def check_copy(elem, count_op, where, what):
            iv = op_int(count_op)
            okc = False
            if elem == 'T' and iv == 1:
                okc = True
            elif elem in ('u8', 'core::mem::maybe_uninit::MaybeUninit<u8>', 'i8'):
                c = trace_value(b, defs, count_op)[-1]
                okc = c[0] == 'call' and callee_path(c[1]) == 'core::mem::size_of' and callee_ty_args(c[1]) == ['T']
            ctx.inst('R-PRIM-COPY', '%s: %s of %s x %s at %s' % (name, what, elem, op_str(count_op), where))
            if not okc:
                ctx.add(['C04', 'C07'], 'R-PRIM', PRIM + name, '%s moves `%s` elements of %s at %s: that is not exactly one value of T (size_of::<T>() bytes)' % (what, op_str(count_op), elem, where), key=name + '.copy-count')
        for bb, t in b.calls():
            p = callee_path(t) or ''
            if p in ('core::ptr::copy_nonoverlapping', 'core::ptr::copy', 'core::intrinsics::copy_nonoverlapping', 'core::intrinsics::copy',
                     'core::ptr::mut_ptr::<impl *mut T>::copy_from', 'core::ptr::mut_ptr::<impl *mut T>::copy_from_nonoverlapping',
                     'core::ptr::const_ptr::<impl *const T>::copy_to', 'core::ptr::const_ptr::<impl *const T>::copy_to_nonoverlapping',
                     'core::ptr::mut_ptr::<impl *mut T>::copy_to', 'core::ptr::mut_ptr::<impl *mut T>::copy_to_nonoverlapping',
                     'core::ptr::write_bytes', 'core::ptr::mut_ptr::<impl *mut T>::write_bytes'):
                tys = callee_ty_args(t)
                elem = tys[0] if tys else '?'
                check_copy(elem, t['args'][-1], fmt_span(t['span']), p.split('::')[-1])
                # the copy is the primitive's access of the buffer: destination for a store, source for a load
                last = p.split('::')[-1]
                if last in ('copy_nonoverlapping', 'copy'):
                    src_op, dst_op = t['args'][0], t['args'][1]
                elif last.startswith('copy_from'):
                    dst_op, src_op = t['args'][0], t['args'][1]
                elif last.startswith('copy_to'):
                    src_op, dst_op = t['args'][0], t['args'][1]
                else:
                    src_op, dst_op = None, t['args'][0]
                side = dst_op if name in ('write', 'get_mut') else src_op
                if side is not None:
                    accesses.append((side, elem == 'T', name in ('write', 'get_mut'), fmt_span(t['span'])))
        for bb, si, st_ in b.statements():
            if st_['k'] == 'copy_nonoverlapping':
                src_ty = (op_place(st_['src']) or {}).get('ty') or ''
                elem = src_ty.replace('*const ', '').replace('*mut ', '')
                check_copy(elem, st_['count'], fmt_span(st_.get('span')), 'copy_nonoverlapping')
                side = st_['dst'] if name in ('write', 'get_mut') else st_['src']
                accesses.append((side, elem == 'T', name in ('write', 'get_mut'), fmt_span(st_.get('span'))))
        if accesses:
            # every access must be `data + offset`; the primitive requires alignment if any unguarded aligned access exists
            access = sorted(accesses, key=lambda a: not a[1])[0]
            for other in accesses:
                if other is access:
                    continue
                ch2 = pointer_chain(b, defs, other[0])
                ok2 = len(ch2['adds']) == 1 and trace_value(b, defs, ch2['adds'][0])[-1] == ('param', 2) and not ch2['other']
                if not ok2:
                    ctx.add(['C04', 'C07'], 'R-PRIM', PRIM + name, 'a second memory access of the primitive at %s is not `data + offset`' % other[3], key=name + '.addr2')
        if access is None and name in ('get', 'get_mut'):
            # the returned reference: _0 = &[mut] (*_p) possibly through reborrows
            steps = trace_value(b, defs, {'copy': {'l': 0, 'p': [], 'ty': None}})
            # walk reborrows down to the raw pointer local
            ptr_local = None
            l = 0
            seen = 0
            mut_ref = None
            while seen < 16:
                seen += 1
                d = single_def(defs, l)
                if d is None or d[0] != 'stmt':
                    break
                rv = d[3]['rv']
                if rv['k'] == 'ref' and rv['place']['p'] == ['deref']:
                    if mut_ref is None:
                        mut_ref = rv['bk'] == 'mut'
                    src = rv['place']['l']
                    if b.local_ty(src).startswith('*'):
                        ptr_local = src
                        break
                    l = src
                    continue
                if rv['k'] == 'use' and op_local(rv['op']) is not None:
                    l = op_local(rv['op'])
                    continue
                break
            if ptr_local is not None:
                access = ({'copy': {'l': ptr_local, 'p': [], 'ty': None}}, True, bool(mut_ref), b.span())
        if access is None:
            ctx.add(['C04', 'C07'], 'R-PRIM', PRIM + name, 'cannot find the memory access of the primitive (unanalysable: fail closed)', key=name)
            continue
        ptr, aligned, is_store, where = access
        ch = pointer_chain(b, defs, ptr)
        ctx.inst('R-PRIM', '%s: access through %s, adds=%d, root=%s' % (name, 'aligned op' if aligned else 'unaligned op', len(ch['adds']), ch['root'][:2] if ch['root'] else None))
        # base + offset, nothing else
        ok_add = len(ch['adds']) == 1 and op_local(ch['adds'][0]) is not None
        if ok_add:
            st = trace_value(b, defs, ch['adds'][0])
            ok_add = st[-1] == ('param', 2)
        if not ok_add or ch['other']:
            ctx.add(['C04', 'C07'], 'R-PRIM', PRIM + name, 'the pointer is not `data + offset` exactly (adds: %s, other calls: %s)' % (
                [op_str(a) for a in ch['adds']], ch['other']), key=name + '.addr')
        root = ch['root']
        def base_is_self(l):
            # the borrowed base is parameter 1, possibly through copies / reborrows (inlined helper taking `self`)
            for _ in range(8):
                if l == 1:
                    return True
                s_ = trace_value(b, defs, {'copy': {'l': l, 'p': [], 'ty': None}})
                return s_[-1] == ('param', 1) and all(x[0] in ('reborrow',) for x in s_[:-1])
            return False
        root_ok = root is not None and root[0] == 'ref' and base_is_self(root[2]['l']) and \
            [e.get('name') if isinstance(e, dict) else e for e in root[2]['p']] == ['deref', 'data']
        if not root_ok:
            ctx.add(['C04', 'C07'], 'R-PRIM', PRIM + name, 'the pointer does not derive from a borrow of self.data: %s' % (root,), key=name + '.root')
        needs_write = is_store or name in ('write', 'get_mut')
        if needs_write:
            ctx.inst('R-PRIM-PROV', name)
            root_mut = root_ok and root[1] in ('mut', 'rawmut')
            if not (root_mut and ch['via_mut_ptr'] in (True, None)):
                ctx.add(['C04', 'C07'], 'R-PRIM-PROV', PRIM + name,
                        '%s stores through a pointer derived from a shared borrow (`%s` + %s, then cast to *mut): the pointer carries no write permission, stores through it are undefined and may be discarded by the optimiser' % (
                            name, root[1] if root_ok else root, 'as_ptr' if ch['via_mut_ptr'] is False else 'no slice pointer'),
                        key=name + '.prov')
        if name == 'write':
            # the value handed over is owned by the record afterwards: outside the unwinding paths the
            # primitive may not destroy it (a path that stores nothing and lets `t` fall out of scope drops a
            # value the generated Drop / unpack / conversion code will read and drop again)
            owned = {3}
            changed = True
            while changed:
                changed = False
                for _, _, st_ in b.statements():
                    if st_['k'] == 'assign' and not st_['place']['p'] and st_['rv']['k'] in ('use', 'aggregate', 'cast'):
                        ops = [st_['rv'].get('op')] if st_['rv']['k'] != 'aggregate' else st_['rv'].get('fields', [])
                        for o in ops:
                            if isinstance(o, dict) and 'move' in o and o['move']['l'] in owned and st_['place']['l'] not in owned:
                                owned.add(st_['place']['l'])
                                changed = True
            ctx.inst('R-PRIM-CONSUME', 'write: value parameter and the %d locals it is moved into' % (len(owned) - 1))
            for bi, blk in enumerate(b.blocks):
                t_ = blk['term']
                if t_['k'] == 'drop' and not blk['cleanup'] and t_['place']['l'] in owned:
                    ctx.add(['C04', 'C06', 'C07'], 'R-PRIM', PRIM + name, 'the value handed to `write` is destroyed inside the primitive on a path that does not unwind (drop of %s in bb%d): the record keeps, and later drops again, a value that is already gone' % (place_str(t_['place']), bi), key=name + '.consume')
                    break
        summary[name] = {'aligned': aligned, 'where': where, 'body': b.d}    # (the body, helpers inlined, for G-PRIM)
        # unwinding
        from geninterp import NO_UNWIND_EXTERNAL
        for bb, t in b.calls():
            p = callee_path(t)
            if p not in NO_UNWIND_EXTERNAL and p not in ALIGNED_ACCESS and p not in PTR_CAST and p not in PTR_ADD and p not in SLICE_PTR:
                summary['no_unwind'] = False
        for blk in b.blocks:
            t = blk['term']
            if t['k'] == 'assert' and t['unwind'] != 'unreachable':
                summary['no_unwind'] = False
    b = crate.body(PRIM + 'new')
    if b is None:
        ctx.add(['C04'], 'R-PRIM', PRIM + 'new', 'primitive not found (anchor lost)', key='new')
    ctx.floor(['C04', 'C07'], 'R-PRIM', 4)
    ctx.floor(['C04', 'C07'], 'R-PRIM-PROV', 2)
    ctx.floor(['C04', 'C06', 'C07'], 'R-PRIM-CONSUME', 1)
    return summary


# --------------------------------------------------------------------------
# rule sets

def run_runtime_rules(ctx, crate, label):
    import convcheck      # (a failure to load the analyser must fail the checks, not skip them)
    convcheck.run(ctx, crate, label)


def run_truc_rules(ctx, crate, label):
    for name, fn in sorted(globals().items()):
        if name.startswith('truc_rule_') and callable(fn):
            fn(ctx, crate)


# ==========================================================================
# rules over crate `truc`
# ==========================================================================

T = 'truc::record::definition::'
STRATEGY_MOD = 'truc::record::definition::builder::native::variant'
NDD = T + 'NativeDatumDetails'
GB = T + 'builder::generic::GenericRecordDefinitionBuilder::<D>::'
NB = T + 'builder::native::NativeRecordDefinitionBuilder::<R>::'
DDC = T + 'DatumDefinitionCollection::<D>::'


def in_strategy_module(b):
    return b.module == STRATEGY_MOD or (b.module or '').startswith(STRATEGY_MOD + '::')


def writes_field(st, adt, name):
    """Is the statement an assignment whose place projects to field `name` of `adt`?"""
    if st['k'] != 'assign':
        return False
    for e in st['place']['p']:
        if isinstance(e, dict) and e.get('adt') == adt and e.get('name') == name:
            return True
    return False


STRING_PASSTHROUGH = re.compile(r'^(<alloc::string::String as core::(ops::deref::Deref(Mut)?|clone::Clone|borrow::Borrow(Mut)?<str>|convert::AsRef<str>)>::[a-z_]+|core::clone::Clone::clone|alloc::string::String::(as_str|as_mut_str)|<str as (alloc::borrow::ToOwned|alloc::string::ToString)>::[a-z_]+|alloc::borrow::ToOwned::to_owned|alloc::string::ToString::to_string|<alloc::string::String as core::convert::From<&str>>::from|<&str as core::convert::Into<alloc::string::String>>::into|<alloc::string::String as core::convert::From<alloc::string::String>>::from|alloc::str::<impl str>::to_owned|alloc::str::<impl alloc::borrow::ToOwned for str>::to_owned|alloc::string::String::(into_boxed_str|into_string)|<alloc::string::String as core::str::traits::FromStr>::from_str)$')


def string_origin(b, defs, op):
    """Where a string value comes from: through references, derefs, clones and str/String conversions."""
    cur = op
    term = None
    for _ in range(16):
        st = trace_value(b, defs, cur)
        term = st[-1]
        if term[0] == 'ref' and not term[2]['p']:
            cur = {'copy': term[2]}
            continue
        if term[0] == 'call' and STRING_PASSTHROUGH.match(callee_path(term[1]) or '') and term[1]['args']:
            cur = term[1]['args'][0]
            continue
        break
    return term


def body_and_closures(crate, path):
    b = crate.body(path)
    return ([b] if b else []) + crate.closures_of(path)


# -- C19 -------------------------------------------------------------------

NONDET_TYPES = re.compile(r'(std::time::|std::thread::|rand::|rand_core::|rand_chacha::|getrandom::)')
# hash-ordered collections are harmless as long as nothing observes their order (membership tests, lookups,
# insertions): what makes output depend on the hasher's random state is iterating / draining / printing them
HASH_ORDER_OPS = re.compile(r'(^(std::collections::hash|hashbrown)::(map::HashMap|set::HashSet)::<[^>]*>::(iter|iter_mut|keys|values|values_mut|into_keys|into_values|drain|retain|extract_if|difference|symmetric_difference|intersection|union)$'
                            r'|^<&?(mut )?(std::collections::hash|hashbrown)::(map::HashMap|set::HashSet)<.*> as core::iter::traits::collect::IntoIterator>::into_iter$'
                            r'|^<(std::collections::hash|hashbrown)::(map::HashMap|set::HashSet)<.*> as core::(fmt::Debug|cmp::PartialOrd|hash::Hash)>::'
                            r'|^<(std::collections::hash|hashbrown)::(map|set)::(Iter|IntoIter|Keys|Values|Drain)<.*> as core::iter::traits::iterator::Iterator>::)')
NONDET_CALLS = re.compile(r'^(std::env::(var|vars|var_os|vars_os|args|args_os|temp_dir|current_dir)|std::time::|std::thread::|std::process::id|rand|getrandom|std::hash::random|core::ptr::[a-z_:<>* A-Za-z]*::(addr|expose_provenance|expose_addr)|core::ptr::(eq|addr_eq|fn_addr_eq|hash)$|(alloc::rc::Rc|alloc::sync::Arc)::<[^>]*>::ptr_eq|<\*(const|mut) [A-Za-z_]+ as core::(cmp::(PartialEq|PartialOrd|Ord)|hash::Hash)>::|std::fs::read_dir|std::sys)')


# addresses as keys: an ordering / hashing / deduplicating / keyed-collection operation instantiated with a raw
# pointer (alone or inside a tuple / reference / array) orders or identifies values by where they live.  The
# comparison itself then happens inside the standard library, so no pointer `Lt` / `Eq` shows in truc's own MIR.
KEYED_OPS = re.compile(r'(sort|::cmp$|::partial_cmp$|::(lt|le|gt|ge|eq|ne)$|::(min|max)(_by|_by_key)?$|binary_search|dedup|is_sorted|partition_point|::hash$|hash_one|collections::(btree|hash|binary_heap)|hashbrown::|BTreeMap|BTreeSet|HashMap|HashSet|BinaryHeap|::(unique|group_by|chunk_by)|core::cmp::)')
RAW_PTR = re.compile(r'(^|[^A-Za-z0-9_])\*(const|mut) ')
KEYED_COLL_OF_PTR = re.compile(r'(BTreeMap|BTreeSet|HashMap|HashSet|BinaryHeap)<[(\[&]*\*(const|mut) ')


STATE_TYPES = re.compile(r'(core::cell::|std::cell::|std::sync::|core::sync::atomic|std::sync::atomic|alloc::sync::Arc<(core|std)::(cell|sync)|once_cell::|lazy_static::)')


WRITE_ONCE = re.compile(r'^(std::sync::(once_lock::OnceLock|lazy_lock::LazyLock)|core::cell::(once::OnceCell|lazy::LazyCell)|once_cell::(sync|unsync)::(Lazy|OnceCell)|lazy_static::lazy::Lazy)<')
WRITE_ONCE_INIT = re.compile(r'(OnceLock|OnceCell)::<[^>]*>::(get_or_init|get_or_try_init)|(LazyLock|LazyCell|Lazy)::<[^>]*>::new|(OnceLock|OnceCell)::<[^>]*>::(set|try_insert|get_mut|take)')


def write_once_ok(crate):
    """Write-once containers hold state, but state nobody can make depend on a caller when every place
    that fills them hands over a closure that captures nothing (or a plain function): a constant table
    built on first use.  Returns the list of offending sites."""
    bad = []
    for b in crate.bodies:
        defs = None
        for bb, t in b.calls():
            p = callee_path(t) or ''
            m = WRITE_ONCE_INIT.search(p)
            if not m:
                continue
            if re.search(r'::(set|try_insert|get_mut|take)$', p):
                bad.append((b, t, 'filled with a value computed by the caller'))
                continue
            defs = defs or local_defs(b)
            f = trace_value(b, defs, t['args'][-1])[-1]
            if f[0] == 'const' and ('fn' in f[1]):
                continue
            if f[0] == 'rv' and f[1].get('ak') == 'closure' and not f[1]['fields']:
                continue
            bad.append((b, t, 'initialised by a closure that captures values of its caller'))
    return bad


def _mentions(v, l):
    """does the JSON fragment mention local `l` as (the base of) a place?"""
    if isinstance(v, dict):
        if 'l' in v and 'p' in v and v['l'] == l:
            return True
        return any(_mentions(x, l) for x in v.values())
    if isinstance(v, list):
        return any(_mentions(x, l) for x in v)
    return False


def compiler_pointer_check(b, bb, st):
    """The alignment / null check rustc inserts before a raw-pointer dereference in builds with debug
    assertions: `_a = ptr as usize (Transmute)`, then only `BitAnd` / `Eq` / `Not` on it within the block,
    ending in `assert(.., "misaligned pointer dereference" | "null pointer dereference")`.  The address
    reaches nothing but that assertion."""
    if st['place']['p']:
        return False
    term = b.blocks[bb]['term']
    if term['k'] != 'assert' or 'pointerdereference' not in (term.get('msg') or '').lower().replace(' ', ''):
        return False
    tainted = {st['place']['l']}
    seen_def = False
    for s2 in b.blocks[bb]['stmts']:
        if s2 is st:
            seen_def = True
            continue
        if not seen_def or s2['k'] != 'assign':
            continue
        if any(_mentions(s2['rv'], l) for l in tainted):
            if s2['rv']['k'] not in ('bin', 'un') or s2['place']['p']:
                return False
            tainted.add(s2['place']['l'])
    for bb2, blk in enumerate(b.blocks):
        if bb2 == bb:
            continue
        for l in tainted:
            if any(s2['k'] == 'assign' and _mentions(s2['rv'], l) for s2 in blk['stmts']) or _mentions({k: v for k, v in blk['term'].items() if k != 'span'}, l) and blk['term']['k'] != 'assert':
                # (re-used temporaries are re-assigned before use; a use without a definition in between
                # in another block would be a real flow — be conservative)
                defs_here = [s2 for s2 in blk['stmts'] if s2['k'] == 'assign' and not s2['place']['p'] and s2['place']['l'] == l]
                if not defs_here:
                    return False
    return True


def scan_nondeterminism(ctx, crate, rule='N-DET', props=('C19',)):
    n_bodies = n_calls = 0
    for b in crate.bodies:
        n_bodies += 1
        for i, l in enumerate(b.locals):
            if KEYED_COLL_OF_PTR.search(l['ty'] or ''):
                ctx.add(list(props), rule, b.key, 'a keyed collection of raw pointers (`%s`): its order / membership follows addresses' % l['ty'], key='%s|ptrkey' % b.key)
            if NONDET_TYPES.search(l['ty'] or ''):
                ctx.add(list(props), rule, b.key, 'a value of type `%s` is used (hash-ordered / random / time / thread state makes the output depend on more than the request history)' % l['ty'], key='%s|type|%s' % (b.key, NONDET_TYPES.search(l['ty']).group(1)))
                break
        for bb, t in b.calls():
            n_calls += 1
            for p in {callee_path(t), callee_decl_path(t)}:
                if p and HASH_ORDER_OPS.search(p):
                    ctx.add(list(props), rule, b.key, 'the order of a hash-ordered collection is observed (`%s`) at %s: it follows the hasher\'s random state, not the request history' % (p.split('::')[-1], fmt_span(t['span'])), key='%s|hash-order|%s' % (b.key, p.split('::')[-1]))
                if p and NONDET_CALLS.search(p):
                    ctx.add(list(props), rule, b.key, 'call to `%s` at %s: its result is not a function of the request history' % (p, fmt_span(t['span'])), key='%s|call|%s' % (b.key, p))
            for ta in callee_ty_args(t):
                if NONDET_TYPES.search(ta or ''):
                    ctx.add(list(props), rule, b.key, 'call instantiated with `%s` at %s' % (ta, fmt_span(t['span'])), key='%s|targ|%s' % (b.key, NONDET_TYPES.search(ta).group(1)))
            if not (t.get('span') or {}).get('exp'):
                paths = [p for p in (callee_path(t), callee_decl_path(t)) if p]
                if any(KEYED_OPS.search(p) for p in paths) and (any(RAW_PTR.search(ta or '') for ta in callee_ty_args(t)) or any(RAW_PTR.search(p) for p in paths)):
                    ctx.add(list(props), rule, b.key, 'an ordering / hashing / keyed-collection operation (`%s`) is instantiated with a raw pointer at %s: values are ordered or identified by where they happen to live' % (paths[0].split('::')[-1], fmt_span(t['span'])), key='%s|ptrkey' % b.key)
        for bb_st, _, st in b.statements():
            if st['k'] == 'assign' and st['rv']['k'] == 'cast' and st['rv']['ck'] in ('PointerExposeProvenance', 'PointerExposeAddress'):
                ctx.add(list(props), rule, b.key, 'pointer-to-integer cast at %s (addresses differ between runs)' % fmt_span(st.get('span')), key='%s|ptr2int' % b.key)
            if st['k'] == 'assign' and st['rv']['k'] == 'cast' and st['rv']['ck'] == 'Transmute' and st['rv']['ty'] in ('usize', 'u64') and not (st.get('span') or {}).get('exp'):
                src = op_place(st['rv']['op'])
                if src and (src.get('ty') or '').startswith(('*', '&')) and not compiler_pointer_check(b, bb_st, st):
                    ctx.add(list(props), rule, b.key, 'pointer transmuted to an integer at %s' % fmt_span(st.get('span')), key='%s|ptr2int' % b.key)
            # addresses as identity / order: comparing raw pointers
            if st['k'] == 'assign' and st['rv']['k'] == 'bin' and st['rv']['op'] in ('Eq', 'Ne', 'Lt', 'Le', 'Gt', 'Ge') and not (st.get('span') or {}).get('exp'):
                for side in ('l', 'r'):
                    pl = op_place(st['rv'][side])
                    ty = b.locals[pl['l']]['ty'] if pl and not pl['p'] else (pl or {}).get('ty')
                    if (ty or '').startswith(('*const ', '*mut ')):
                        ctx.add(list(props), rule, b.key, 'raw pointers compared at %s (`%s`): the answer depends on where values happen to live' % (fmt_span(st.get('span')), ty), key='%s|ptrcmp' % b.key)
                        break
        # state that outlives a call: statics holding interior-mutable / synchronised state
        if (b.d.get('def_kind') or '').startswith('Static') and b.locals and STATE_TYPES.search(b.locals[0]['ty'] or '') and not WRITE_ONCE.match(b.locals[0]['ty'] or ''):
            ctx.add(list(props), rule, b.key, 'static of type `%s`: state shared between calls' % b.locals[0]['ty'], key='%s|static-state' % b.key)
    for wb, wt, why in write_once_ok(crate):
        ctx.add(list(props), rule, wb.key, 'a write-once cell is %s at %s: what it holds afterwards depends on who called first' % (why, fmt_span(wt['span'])), key='%s|write-once' % wb.key)
    for adt in crate.adts.values():
        for v in adt['variants']:
            for f in v['fields']:
                if NONDET_TYPES.search(f['ty'] or ''):
                    ctx.add(list(props), rule, adt['path'], 'field `%s: %s`' % (f['name'], f['ty']), key='%s|field|%s' % (adt['path'], f['name']))
                elif STATE_TYPES.search(f['ty'] or '') and not WRITE_ONCE.match(f['ty'] or ''):
                    ctx.add(list(props), rule, adt['path'], 'field `%s: %s` is interior-mutable: a value that looks unchanged to its users can make the next call answer differently' % (f['name'], f['ty']), key='%s|state-field|%s' % (adt['path'], f['name']))
    return n_bodies, n_calls


def truc_rule_ndet(ctx, crate):
    nb, nc = scan_nondeterminism(ctx, crate)
    ctx.inst('N-DET', 'scanned %d non-test bodies, %d call sites, %d type definitions of crate truc: locals, fields, callees and generic arguments' % (nb, nc, len(crate.adts)))
    if nb < 300:
        ctx.add(['C19'], 'N-DET-FLOOR', None, 'only %d bodies of truc were scanned (floor 300): facts incomplete' % nb, key='floor')


# -- C18 -------------------------------------------------------------------

HOST_QUERIES = {'core::mem::size_of', 'core::mem::align_of', 'core::mem::size_of_val', 'core::mem::align_of_val',
                'core::any::type_name', 'core::any::type_name_of_val', 'core::alloc::layout::Layout::new',
                'core::alloc::layout::Layout::for_value', 'core::mem::needs_drop'}
HOST_ALLOWED = {
    '<truc::record::type_resolver::HostTypeResolver as truc::record::type_resolver::TypeResolver>::type_info': 'the host resolver itself',
    'truc::record::type_resolver::StaticTypeResolver::add_type': 'table registration',
    'truc::record::type_resolver::StaticTypeResolver::add_type_allow_uninit': 'table registration',
    'truc::record::type_name::truc_type_name': 'the name printer',
}


HOST_MODULES = ('truc::record::type_resolver', 'truc::record::type_name')


def only_formatted(b, t):
    """The result of the call `t` is only ever handed to the formatting machinery (a message), never stored
    or compared: every use of its destination is a borrow that ends in `fmt::rt::Argument::new_*`."""
    if t['dest']['p'] or t['t'] is None:
        return False
    frontier = {t['dest']['l']}
    seen = set()
    for _ in range(8):
        nxt = set()
        for l in frontier:
            if l in seen:
                continue
            seen.add(l)
            for bb, si, st in b.statements():
                if st['k'] != 'assign':
                    continue
                rv = st['rv']
                used = False
                for k in ('op', 'l', 'r', 'o'):
                    if k in rv and op_place(rv[k]) and op_place(rv[k])['l'] == l:
                        used = True
                if 'place' in rv and rv['place']['l'] == l:
                    used = True
                if rv['k'] == 'aggregate' and any(op_place(f) and op_place(f)['l'] == l for f in rv['fields']):
                    used = True
                if used:
                    if st['place']['p'] or rv['k'] not in ('use', 'ref', 'aggregate', 'copy_for_deref'):
                        return False
                    nxt.add(st['place']['l'])
            for bb, tt in b.calls():
                if any(op_place(a) and op_place(a)['l'] == l for a in tt['args']):
                    cp = callee_path(tt) or ''
                    if not cp.startswith('core::fmt::rt::Argument'):
                        return False
            for blk in b.blocks:
                tm = blk['term']
                if tm['k'] == 'switch' and op_place(tm['d']) and op_place(tm['d'])['l'] == l:
                    return False
        frontier = nxt - seen
        if not frontier:
            break
    return True


def truc_rule_host(ctx, crate):
    """H-HOST: the host's own layout / type names are queried only inside the resolver and
    name-printer modules (where the host resolver and the table registration live)."""
    for b in crate.bodies:
        for bb, t in b.calls():
            p = callee_path(t)
            if p in HOST_QUERIES:
                owner = b.path
                tys = callee_ty_args(t)
                mod = b.module or ''
                if any(mod == m or mod.startswith(m + '::') for m in HOST_MODULES):
                    ctx.inst('H-HOST', '%s::<%s> in %s (resolver / name printer module)' % (p, ','.join(tys), owner))
                elif p in ('core::mem::align_of', 'core::mem::size_of') and tys == ['()']:
                    ctx.inst('H-HOST', '%s::<()> in %s (a constant: neutral element for an empty definition)' % (p.split('::')[-1], owner.split('::')[-1]))
                elif p == 'core::any::type_name' and only_formatted(b, t):
                    ctx.inst('H-HOST', 'type_name::<%s> in %s feeds a message only' % (','.join(tys), owner.split('::')[-1]))
                else:
                    ctx.add(['C18'], 'H-HOST', owner, '`%s::<%s>` is called at %s, outside the type resolver module: the host\'s own layout leaks into the definition instead of the resolver\'s answer' % (p, ','.join(tys), fmt_span(t['span'])), key='%s|%s' % (owner, p))
    # who answers for a resolver: only HostTypeResolver's own methods may reach a host query; a provided
    # (default) method of the trait that does would answer with the host's layout for every resolver that
    # does not override it, and a wrapper impl (`&R`) that leaves a method out falls back on it
    TR = 'truc::record::type_resolver::TypeResolver'
    impls = defaultdict(dict)        # self type -> {method: body}
    defaults = {}
    for b in crate.bodies:
        m = re.match(r'^<(.+) as %s>::([A-Za-z_0-9]+)$' % re.escape(TR), b.path)
        if m:
            impls[m.group(1)][m.group(2)] = b
        m = re.match(r'^%s::([A-Za-z_0-9]+)$' % re.escape(TR), b.path)
        if m:
            defaults[m.group(1)] = b

    def reaches_host(b0, depth=0, seen=None, layout_only=False):
        seen = seen if seen is not None else set()
        if b0.path in seen or depth > 4:
            return None
        seen.add(b0.path)
        for _, tm in b0.calls():
            cp = callee_path(tm)
            if cp in HOST_QUERIES and not (cp.startswith('core::any::type_name') and (layout_only or only_formatted(b0, tm))) and callee_ty_args(tm) != ['()']:
                return '%s at %s' % (cp, fmt_span(tm['span']))
            inner = crate.lookup(cp) if cp else None
            if inner is not None and inner is not b0:
                r = reaches_host(inner, depth + 1, seen, layout_only)
                if r:
                    return r
        for cl in crate.closures_of(b0.path):
            r = reaches_host(cl, depth + 1, seen, layout_only)
            if r:
                return r
        return None
    methods = set(defaults)
    for ms in impls.values():
        methods |= set(ms)
    for name, db in sorted(defaults.items()):
        # (a provided method that answers for the host is the answer of every resolver that keeps it: allowed;
        # what matters is that wrappers do not fall back on it — below)
        r = reaches_host(db, layout_only=True)
        ctx.inst('H-HOST', 'provided method TypeResolver::%s %s' % (name, 'answers with the host layout (%s)' % r if r else 'does not reach a host query'))
    for ty, ms in sorted(impls.items()):
        if ty.startswith('&') or ty.startswith('alloc::boxed::Box<') or ty.startswith('alloc::rc::Rc<') or ty.startswith('alloc::sync::Arc<'):
            for name in sorted(methods):
                fb = ms.get(name)
                fwd = fb is not None and any((callee_path(tm, resolved=False) or '') == '%s::%s' % (TR, name) for _, tm in fb.calls())
                if not fwd:
                    ctx.add(['C18'], 'H-HOST', '<%s as TypeResolver>' % ty, 'the wrapper resolver `%s` does not forward `%s` to the resolver it wraps (%s): it answers with the trait\'s default instead' % (ty, name, 'no such method in the impl' if fb is None else 'the body does not call it'), key='forward|%s|%s' % (ty, name))
                else:
                    ctx.inst('H-HOST', '<%s as TypeResolver>::%s forwards to the wrapped resolver' % (ty, name))
        elif 'HostTypeResolver' not in ty:
            for name, fb in sorted(ms.items()):
                r = reaches_host(fb, layout_only=True)     # (the type's *name* is the key it looks up)
                if r:
                    ctx.add(['C18'], 'H-HOST', fb.path, '`%s`, which is not the host resolver, reaches a host layout query in `%s` (%s)' % (ty, name, r), key='impl-host|%s|%s' % (ty, name))
    ctx.floor(['C18'], 'H-HOST', 5)


def origin_class(crate, b, defs, op, depth=0):
    """Classify where a value comes from (H-FLOW). Returns a set of tags."""
    if depth > 12:
        return {'deep'}
    st = trace_value(b, defs, op)
    t = st[-1]
    if t[0] == 'const':
        c = t[1]
        if 'int' in c:
            return {'const:%s' % c['int']}
        return {'const'}
    if t[0] == 'param':
        return {'param:%d' % t[1]}
    if t[0] == 'call':
        c = t[1]
        p = callee_path(c, resolved=False) or ''
        rp = callee_path(c) or ''
        if p == 'truc::record::type_resolver::TypeResolver::type_info':
            return {'resolver.type_info'}
        if p == 'truc::record::type_resolver::TypeResolver::dynamic_type_info':
            return {'resolver.dynamic_type_info'}
        if rp in ('<truc::record::type_resolver::TypeInfo as core::clone::Clone>::clone',) or p == 'core::clone::Clone::clone':
            return {'clone(%s)' % ','.join(sorted(origin_class(crate, b, defs, c['args'][0], depth + 1)))}
        if p in (NDD + '::type_info', NDD + '::allow_uninit', T + 'DatumDefinition::<D>::details', T + 'DatumDefinition::<D>::name'):
            return {'%s(%s)' % (p.split('::')[-1], ','.join(sorted(origin_class(crate, b, defs, c['args'][0], depth + 1))))}
        if p == 'core::option::Option::<T>::unwrap_or':
            return {'unwrap_or(%s;%s)' % (','.join(sorted(origin_class(crate, b, defs, c['args'][0], depth + 1))), ','.join(sorted(origin_class(crate, b, defs, c['args'][1], depth + 1))))}
        return {'call:%s' % rp}
    if t[0] == 'place':
        pl = t[1]
        names = [e.get('name') if isinstance(e, dict) else e for e in pl['p']]
        base = origin_class(crate, b, defs, {'copy': {'l': pl['l'], 'p': [], 'ty': None}}, depth + 1) if not (1 <= pl['l'] <= b.arg_count) else {'param:%d' % pl['l']}
        return {'%s.%s' % (x, '.'.join(str(n) for n in names)) for x in base}
    if t[0] == 'multi':
        # a local assigned several times (field overwrites of `target_info`): union of all definitions
        out = set()
        for d in defs.get(t[1], []):
            if d[0] == 'call':
                out |= origin_class(crate, b, defs, {'copy': {'l': -1, 'p': []}}, 99) if False else {'call:%s' % (callee_path(d[2], resolved=False))}
            else:
                rv = d[3]['rv']
                if rv['k'] == 'use':
                    out |= origin_class(crate, b, defs, rv['op'], depth + 1)
                else:
                    out.add('rv:%s' % rv['k'])
        return out
    if t[0] == 'rv':
        return {'rv:%s' % t[1]['k']}
    if t[0] == 'ref':
        if not t[2]['p'] and not (1 <= t[2]['l'] <= b.arg_count):
            # a reference to a local: where the local's value comes from
            return {'ref:' + x for x in origin_class(crate, b, defs, {'copy': {'l': t[2]['l'], 'p': [], 'ty': None}}, depth + 1)}
        return {'ref'}
    return {str(t[0])}


def truc_rule_flow(ctx, crate):
    """H-FLOW + W1b: every NativeDatumDetails built outside tests gets offset = usize::MAX and its
    type information / flag only from the resolver, the override or the copied datum."""
    entry = {'add_datum': {'type_info': {'call:truc::record::type_resolver::TypeResolver::type_info', 'resolver.type_info'}, 'allow_uninit': {'const:0'}},
             'add_datum_allow_uninit': {'type_info': {'resolver.type_info'}, 'allow_uninit': {'const:1'}},
             'add_datum_override': None, 'add_dynamic_datum': None, 'copy_datum': None}
    # the derived constructor NativeDatumDetails::new: which parameter feeds which field
    ctor_order = None
    nb_ = crate.lookup(NDD + '::new')
    if nb_ is not None:
        for _, _, s_ in nb_.statements():
            if s_['k'] == 'assign' and s_['rv']['k'] == 'aggregate' and s_['rv'].get('adt') == NDD:
                nd_ = local_defs(nb_)
                ctor_order = {}
                for fname, fop in zip(s_['rv']['field_names'], s_['rv']['fields']):
                    src_ = trace_value(nb_, nd_, fop)[-1]
                    if src_[0] == 'param':
                        ctor_order[fname] = src_[1] - 1
        if ctor_order is not None and (set(ctor_order) != {'offset', 'type_info', 'allow_uninit'} or len(list(nb_.calls())) > 0):
            ctor_order = None
    for b in crate.bodies:
        defs = None
        sites = []
        for bb, si, st in b.statements():
            if st['k'] == 'assign' and st['rv']['k'] == 'aggregate' and st['rv'].get('adt') == NDD:
                sites.append((dict(zip(st['rv']['field_names'], st['rv']['fields'])), fmt_span(st.get('span'))))
        if ctor_order is not None and b.path.startswith(NB) and b.path[len(NB):] in entry:
            # an entry point that goes through the constructor: the same obligations on its arguments
            for bb, t in b.calls():
                if callee_path(t) == NDD + '::new' and len(t['args']) == 3:
                    sites.append(({k: t['args'][i] for k, i in ctor_order.items()}, fmt_span(t['span'])))
        for vals, where in sites:
            if True:
                defs = defs or local_defs(b)
                name = b.path[len(NB):] if b.path.startswith(NB) else None
                derive_new = b.path == NDD + '::new'
                if derive_new:
                    continue   # the derive-new constructor: who calls it is checked below
                if name not in entry:
                    ctx.add(['C03', 'C18'], 'W1b', b.key, 'NativeDatumDetails is constructed at %s, outside the builder entry points' % where, key='%s|construct' % b.key)
                    continue
                ctx.inst('W1b', '%s builds NativeDatumDetails at %s' % (name, where))
                off = op_int(vals['offset'])
                if off != USIZE_MAX:
                    ctx.add(['C03', 'C13'], 'W1b', b.key, 'a new datum gets offset %s instead of the placeholder usize::MAX at %s: it is "placed" without a strategy having run' % (op_str(vals['offset']), where), key='%s|offset' % b.key)
                ti = origin_class(crate, b, defs, vals['type_info'])
                au = origin_class(crate, b, defs, vals['allow_uninit'])
                ctx.inst('H-FLOW', '%s: type_info <- %s ; allow_uninit <- %s' % (name, sorted(ti), sorted(au)))
                ok_ti = all(x.startswith(('resolver.type_info', 'resolver.dynamic_type_info', 'clone(type_info(details(param:2', 'param:3.')) or
                            x.startswith('call:truc::record::type_resolver::TypeResolver') for x in ti)
                if name == 'add_datum_override':
                    # field overwrites must come from the override parameter (param 3)
                    for blk in b.blocks:
                        for s2 in blk['stmts']:
                            if s2['k'] == 'assign' and s2['place']['p'] and any(isinstance(e, dict) and e.get('adt') == 'truc::record::type_resolver::TypeInfo' for e in s2['place']['p']):
                                src = origin_class(crate, b, defs, s2['rv']['op']) if s2['rv']['k'] == 'use' else {'rv'}
                                fname = [e.get('name') for e in s2['place']['p'] if isinstance(e, dict) and e.get('adt') == 'truc::record::type_resolver::TypeInfo'][0]
                                want = {'name': 'type_name', 'size': 'size', 'align': 'align'}.get(fname)
                                if not all(x.startswith('param:3.%s' % want) or x.startswith('param:3.') and ('.%s.' % want) in x + '.' for x in src):
                                    ctx.add(['C18'], 'H-FLOW', b.key, 'TypeInfo.%s is overwritten from %s at %s, not from the override\'s `%s`' % (fname, sorted(src), fmt_span(s2.get('span')), want), key='%s|override.%s' % (b.key, fname))
                                else:
                                    ctx.inst('H-FLOW', 'add_datum_override: TypeInfo.%s <- override.%s' % (fname, want))
                if not ok_ti and name == 'add_datum_override':
                    # a TypeInfo literal assembled field by field: each field is the resolver's answer
                    # unless the override of the same kind says otherwise
                    lit = trace_value(b, defs, vals['type_info'])[-1]
                    if lit[0] == 'rv' and lit[1]['k'] == 'aggregate' and lit[1].get('adt') == 'truc::record::type_resolver::TypeInfo':
                        ok_ti = True
                        for fname, fop in zip(lit[1]['field_names'], lit[1]['fields']):
                            want = {'name': 'type_name', 'size': 'size', 'align': 'align'}.get(fname)
                            src = origin_class(crate, b, defs, fop)
                            good = all(x.startswith('resolver.type_info') and x.endswith('.' + fname) or
                                       (x.startswith('unwrap_or(param:3.%s' % want) and (';resolver.type_info' in x) and x.rstrip(')').endswith('.' + fname))
                                       for x in src)
                            if good:
                                ctx.inst('H-FLOW', 'add_datum_override: TypeInfo.%s <- override.%s or the resolver\'s' % (fname, want))
                            else:
                                ok_ti = False
                                ctx.add(['C18'], 'H-FLOW', b.key, 'TypeInfo.%s of a new datum flows from %s at %s, not from the override\'s `%s` or the resolver\'s answer' % (fname, sorted(src), where, want), key='%s|override.%s' % (b.key, fname))
                        if ok_ti:
                            ti = {'literal of resolver / override fields'}
                        else:
                            continue
                if not ok_ti:
                    ctx.add(['C18'], 'H-FLOW', b.key, 'the type information of a new datum flows from %s at %s, not from the resolver / the override / the copied datum' % (sorted(ti), where), key='%s|type_info' % b.key)
                want_au = {'add_datum': lambda x: x == 'const:0', 'add_datum_allow_uninit': lambda x: x == 'const:1',
                           'add_datum_override': lambda x: x.startswith('unwrap_or(param:3.allow_uninit') and x.endswith(';const:0)'),
                           'add_dynamic_datum': lambda x: x.startswith('resolver.dynamic_type_info') and x.endswith('allow_uninit'),
                           'copy_datum': lambda x: x.startswith('allow_uninit(details(param:2')}[name]
                if not all(want_au(x) for x in au):
                    ctx.add(['C18', 'C11'], 'H-FLOW', b.key, 'the may-be-uninitialised flag of a new datum flows from %s at %s' % (sorted(au), where), key='%s|allow_uninit' % b.key)
        for bb, t in b.calls():
            if callee_path(t) == NDD + '::new' and not (ctor_order is not None and b.path.startswith(NB) and b.path[len(NB):] in entry and len(t['args']) == 3):
                ctx.add(['C03', 'C18'], 'W1b', b.key, 'NativeDatumDetails::new is called from non-test code at %s (offset and type information chosen by the caller)' % fmt_span(t['span']), key='%s|new' % b.key)
    ctx.floor(['C03', 'C18'], 'W1b', 5)
    ctx.floor(['C18'], 'H-FLOW', 5)


def truc_rule_table(ctx, crate):
    """H-TABLE / K-NORM: StaticTypeResolver stores and returns entries unmodified, keyed by one normaliser."""
    R = 'truc::record::type_resolver::'
    TN = 'truc::record::type_name::'
    # K-NORM: truc_type_name = truc_dynamic_type_name(type_name::<T>())
    b = crate.body(TN + 'truc_type_name')
    if b is None:
        ctx.add(['C17'], 'K-NORM', TN + 'truc_type_name', 'function not found (anchor lost)', key='anchor')
    else:
        defs = local_defs(b)
        st = trace_value(b, defs, {'copy': {'l': 0, 'p': [], 'ty': None}})
        ok = st[-1][0] == 'call' and callee_path(st[-1][1]) == TN + 'truc_dynamic_type_name'
        if ok:
            a = trace_value(b, defs, st[-1][1]['args'][0])
            ok = a[-1][0] == 'call' and callee_path(a[-1][1]) == 'core::any::type_name' and callee_ty_args(a[-1][1]) == ['T']
        if not ok:
            ctx.add(['C17'], 'K-NORM', b.key, 'truc_type_name::<T>() is not truc_dynamic_type_name(type_name::<T>()): typed and dynamic names are normalised differently', key='typed-vs-dynamic')
        else:
            ctx.inst('K-NORM', 'truc_type_name::<T>() = truc_dynamic_type_name(type_name::<T>())')
    # K-NORM pipeline: every answer of the normaliser is the token printer applied to the parsed and
    # rewritten type (an answer produced any other way is spelled by a different printer: whitespace
    # or the short/qualified spelling would then matter)
    nb = crate.body(TN + 'truc_dynamic_type_name')
    if nb is None:
        ctx.add(['C17'], 'K-NORM', TN + 'truc_dynamic_type_name', 'function not found (anchor lost)', key='anchor-dyn')
    else:
        dom = nb.dominators(unwind=False)
        parse = [bb for bb, c in nb.calls() if callee_path(c) == 'syn::parse_str' and (callee_ty_args(c) or [''])[0].endswith('syn::ty::Type')]
        rewrite = [bb for bb, c in nb.calls() if (callee_path(c) or '').startswith(TN) and 'rewrite' in (callee_path(c) or '')]
        if not rewrite:
            # the visitor may be invoked directly
            rewrite = [bb for bb, c in nb.calls() if 'VisitMut' in (callee_path(c, resolved=False) or '') or 'visit_type_mut' in (callee_path(c) or '')]
        printer = [bb for bb, c in nb.calls() if (callee_path(c) or '').endswith('ToTokens>::to_tokens') or (callee_path(c) or '').endswith('ToTokens::to_token_stream') or (callee_path(c) or '').endswith('ToTokens>::to_token_stream')]
        sites = [bb for bb, c in nb.calls() if c['dest']['l'] == 0 and not c['dest']['p'] and not nb.blocks[bb]['cleanup']]
        sites += [bb for bb, si, s in nb.statements() if s['k'] == 'assign' and s['place']['l'] == 0 and not s['place']['p'] and not nb.blocks[bb]['cleanup']]
        ok = bool(parse and rewrite and printer and sites)
        for sbb in sites:
            d = dom.get(sbb, set())
            if not (set(parse) & d and set(rewrite) & d and set(printer) & d):
                ok = False
                ctx.add(['C17'], 'K-NORM', nb.key, 'the name normaliser can answer (bb%d) without having parsed, rewritten and re-printed the type: that answer is spelled by a different printer, so whitespace or the short / qualified spelling of a name decides whether a table lookup succeeds' % sbb, key='bypass')
        if ok:
            ctx.inst('K-NORM', 'truc_dynamic_type_name: every answer = print(rewrite(parse(name)))')
        elif not (parse and rewrite and printer):
            ctx.add(['C17'], 'K-NORM', nb.key, 'cannot find the parse / rewrite / print pipeline of the normaliser (unanalysable: fail closed)', key='pipeline')
    norm = {TN + 'truc_type_name', TN + 'truc_dynamic_type_name'}
    MAP_OPS = ('alloc::collections::btree::map::BTreeMap::<K, V, A>::entry', 'alloc::collections::btree::map::BTreeMap::<K, V, A>::get',
               'alloc::collections::btree::map::BTreeMap::<K, V, A>::insert', 'alloc::collections::btree::map::BTreeMap::<K, V, A>::get_mut',
               'alloc::collections::btree::map::BTreeMap::<K, V, A>::contains_key', 'alloc::collections::btree::map::BTreeMap::<K, V, A>::remove')
    for b in crate.bodies:
        if not (b.module or '').startswith('truc::record::type_resolver'):
            continue
        defs = None
        for bb, t in b.calls():
            p = callee_path(t)
            if p in MAP_OPS:
                recv = trace_value(b, local_defs(b), t['args'][0])
                defs = defs or local_defs(b)
                # key operand (by value or by reference)
                key = t['args'][1]
                term = string_origin(b, defs, key)
                src = callee_path(term[1]) if term[0] == 'call' else None
                where = fmt_span(t['span'])
                if src in norm:
                    ctx.inst('K-NORM', '%s: key of %s is %s(..)' % (b.path.split('::')[-1], p.split('::')[-1], src.split('::')[-1]))
                else:
                    ctx.add(['C17', 'C18'], 'K-NORM', b.key, 'the type table is accessed (%s) at %s with a key that does not come from the normaliser (%s)' % (p.split('::')[-1], where, src or term[0]), key='%s|%s' % (b.key, p.split('::')[-1]))
    ctx.floor(['C17'], 'K-NORM', 5)
    # H-TABLE: lookups return the stored entry (clone of the BTreeMap::get result, no field write)
    for path, field in (('<truc::record::type_resolver::StaticTypeResolver as truc::record::type_resolver::TypeResolver>::type_info', 'info'),
                        ('<truc::record::type_resolver::StaticTypeResolver as truc::record::type_resolver::TypeResolver>::dynamic_type_info', None)):
        b = crate.body(path)
        if b is None:
            ctx.add(['C18'], 'H-TABLE', path, 'function not found (anchor lost)', key='anchor|%s' % path)
            continue
        defs = local_defs(b)
        st = trace_value(b, defs, {'copy': {'l': 0, 'p': [], 'ty': None}})
        ok = st[-1][0] == 'call' and (callee_path(st[-1][1], resolved=False) == 'core::clone::Clone::clone')
        via = None
        if ok:
            a = trace_value(b, defs, st[-1][1]['args'][0])
            t2 = a[-1]
            # &(*x).info  or  &(*x)
            if t2[0] == 'ref':
                names = [e.get('name') for e in t2[2]['p'] if isinstance(e, dict) and 'name' in e]
                if (field and names != [field]) or (not field and names):
                    ok = False
                a2 = trace_value(b, defs, {'copy': {'l': t2[2]['l'], 'p': [], 'ty': None}})
                t3 = a2[-1]
            else:
                t3 = t2
            if ok and t3[0] == 'call' and callee_path(t3[1]).startswith('core::option::Option::<T>::unwrap_or_else'):
                a3 = trace_value(b, defs, t3[1]['args'][0])
                ok = a3[-1][0] == 'call' and callee_path(a3[-1][1]) == 'alloc::collections::btree::map::BTreeMap::<K, V, A>::get'
                # the fallback for an unregistered type must refuse (diverge), not invent an answer
                fb = trace_value(b, defs, t3[1]['args'][1])[-1]
                if fb[0] == 'rv' and fb[1].get('ak') == 'closure':
                    cbody = crate.lookup(fb[1]['closure'])
                    if cbody is None or any(cbody.blocks[x]['term']['k'] == 'return' for x in cbody.reachable(0, unwind=False)):
                        ctx.add(['C18'], 'H-TABLE', b.key, 'a type that was never registered gets an answer from the fallback closure instead of being refused: the table no longer answers exactly what was registered', key='%s|fallback' % path)
                else:
                    ok = False
            elif ok and t3[0] == 'call' and (callee_path(t3[1]) in ('core::option::Option::<T>::unwrap', 'core::option::Option::<T>::expect')):
                a3 = trace_value(b, defs, t3[1]['args'][0])
                ok = a3[-1][0] == 'call' and callee_path(a3[-1][1]) == 'alloc::collections::btree::map::BTreeMap::<K, V, A>::get'
            elif ok and t3[0] == 'call' and callee_path(t3[1]) == 'alloc::collections::btree::map::BTreeMap::<K, V, A>::get':
                pass
            elif ok and t3[0] == 'place' and [e.get('name') for e in t3[1]['p'] if isinstance(e, dict) and 'downcast' in e] == ['Some']:
                # `match self.types.get(..) { Some(entry) => entry…clone(), None => <diverges> }`: the only
                # definition of the result is the clone of the entry, so the other arm cannot answer
                g = trace_value(b, defs, {'copy': {'l': t3[1]['l'], 'p': [], 'ty': None}})[-1]
                ok = g[0] == 'call' and callee_path(g[1]) == 'alloc::collections::btree::map::BTreeMap::<K, V, A>::get' and len([d for d in defs.get(0, []) if not b.blocks[d[1]]['cleanup']]) == 1
            else:
                ok = False
        wr = [s for _, _, s in b.statements() if s['k'] == 'assign' and any(isinstance(e, dict) and e.get('adt', '').startswith(R) for e in s['place']['p'])]
        if not ok or wr:
            ctx.add(['C18'], 'H-TABLE', b.key, 'the lookup does not return an unmodified clone of the stored entry', key='%s|lookup' % path)
        else:
            ctx.inst('H-TABLE', '%s returns %sclone of the BTreeMap::get result' % (path.split('::')[-1], ('.%s.' % field) if field else '.'))
    # registration stores {name: normalised name, size_of::<T>, align_of::<T>} and the right flag
    # (directly or through a helper of the module that takes the flag as a parameter)
    builders = {}        # body path -> ('const', v) | ('param', k) for the flag of the DynamicTypeInfo it builds
    for b in crate.bodies:
        if not (b.module or '').startswith('truc::record::type_resolver') or b.promoted is not None:
            continue
        if (b.d.get('span') or {}).get('exp') or b.d.get('impl_trait') in ('core::clone::Clone', 'serde_core::de::Visitor', 'serde_core::de::Deserialize'):
            continue      # derived Clone / Deserialize copy or decode an entry, they do not register one
        defs = None
        for _, _, s in b.statements():
            if s['k'] == 'assign' and s['rv']['k'] == 'aggregate' and s['rv'].get('adt') == R + 'DynamicTypeInfo':
                defs = defs or local_defs(b)
                vals = dict(zip(s['rv']['field_names'], s['rv']['fields']))
                info = trace_value(b, defs, vals['info'])
                okinfo = info[-1][0] == 'rv' and info[-1][1].get('adt') == R + 'TypeInfo'
                if okinfo:
                    iv = dict(zip(info[-1][1]['field_names'], info[-1][1]['fields']))
                    sz = origin_class(crate, b, defs, iv['size'])
                    al = origin_class(crate, b, defs, iv['align'])
                    nm = origin_class(crate, b, defs, iv['name'])
                    okinfo = sz == {'call:core::mem::size_of'} and al == {'call:core::mem::align_of'} and all('truc_type_name' in x for x in nm)
                if not okinfo:
                    ctx.add(['C18'], 'H-TABLE', b.key, 'a table entry is built with something else than {normalised name, size_of::<T>(), align_of::<T>()}', key='%s|entry' % b.path.split('::')[-1])
                    continue
                fl = trace_value(b, defs, vals['allow_uninit'])[-1]
                if fl[0] == 'const' and 'int' in fl[1]:
                    builders[b.path] = ('const', fl[1]['int'])
                elif fl[0] == 'param':
                    builders[b.path] = ('param', fl[1])
                else:
                    ctx.add(['C18'], 'H-TABLE', b.key, 'the may-be-uninitialised flag of a table entry has an unclear origin', key='%s|flag' % b.path.split('::')[-1])
    for name, flag in (('add_type', 0), ('add_type_allow_uninit', 1)):
        b = crate.body(R + 'StaticTypeResolver::' + name)
        if b is None:
            ctx.add(['C18'], 'H-TABLE', R + name, 'function not found (anchor lost)', key='anchor|%s' % name)
            continue
        got = None
        if builders.get(b.path, (None,))[0] == 'const':
            got = builders[b.path][1]
        else:
            for bb, t in b.calls():
                h = builders.get(callee_path(t))
                if h and h[0] == 'param':
                    got = op_int(t['args'][h[1] - 1])
        if got != flag:
            ctx.add(['C18'], 'H-TABLE', b.key, '%s registers an entry with flag %s, expected %d' % (name, got, flag), key='%s|register' % name)
        else:
            ctx.inst('H-TABLE', '%s registers {truc_type_name::<T>(), size_of::<T>(), align_of::<T>(), allow_uninit=%d}' % (name, flag))
    # H-SERDE: TypeInfo / DynamicTypeInfo derive both directions, no serde attribute
    for ty in ('TypeInfo', 'DynamicTypeInfo'):
        adt = crate.adts.get(R + ty)
        if adt is None:
            ctx.add(['C18'], 'H-SERDE', R + ty, 'type not found (anchor lost)', key='anchor|%s' % ty)
            continue
        impls = [i for i in crate.impls if i.get('self_ty') == R + ty and i.get('trait') in ('serde_core::ser::Serialize', 'serde_core::de::Deserialize')]
        dirs = {i['trait'].split('::')[-1] for i in impls}
        derived = all(i['span']['exp'] for i in impls)
        attrs = [a for a in adt.get('attrs', []) if 'serde' in a.lower() and 'derive' not in a.lower()]
        if dirs != {'Serialize', 'Deserialize'} or not derived or attrs:
            ctx.add(['C18'], 'H-SERDE', R + ty, '%s: serde impls %s (derived: %s), serde attributes: %s' % (ty, sorted(dirs), derived, attrs), key='%s|serde' % ty)
        else:
            ctx.inst('H-SERDE', '%s derives Serialize and Deserialize, no #[serde(..)] attribute' % ty)
    # … and the derived code treats every field as mandatory in both directions (a `#[serde(skip…, default…)]`
    # on a field leaves the type-level attributes untouched but makes the JSON form lossy)
    for ty in ('TypeInfo', 'DynamicTypeInfo'):
        adt = crate.adts.get(R + ty)
        if adt is None or not adt.get('variants'):
            continue
        nf = len(adt['variants'][0]['fields'])
        ser = [x for x in crate.bodies if x.path.endswith('<impl serde_core::ser::Serialize for %s>::serialize' % (R + ty))]
        des = [x for x in crate.bodies if ('<impl serde_core::de::Deserialize<\'de> for %s>::deserialize::__Visitor' % (R + ty)) in x.path]
        if len(ser) != 1 or not des:
            ctx.add(['C18'], 'H-SERDE', R + ty, '%s: cannot find the derived serialize / visitor bodies (%d, %d)' % (ty, len(ser), len(des)), key='%s|derived-bodies' % ty)
            continue
        sb = ser[0]
        fld = [(bb, tm) for bb, tm in sb.calls() if (callee_decl_path(tm) or '').endswith('SerializeStruct::serialize_field')]
        skip = [(bb, tm) for bb, tm in sb.calls() if (callee_decl_path(tm) or '').endswith('SerializeStruct::skip_field')]
        end = [bb for bb, tm in sb.calls() if (callee_decl_path(tm) or '').endswith('SerializeStruct::end')]
        dom = sb.dominators(unwind=False)
        always = [bb for bb, _ in fld if all(bb in dom.get(e, set()) for e in end)]
        missing = sum(1 for x in des for _, tm in x.calls() if (callee_path(tm) or callee_decl_path(tm) or '').endswith('de::missing_field'))
        short = sum(1 for x in des for _, tm in x.calls() if (callee_decl_path(tm) or '').endswith('de::Error::invalid_length'))
        if skip or len(fld) != nf or len(always) != nf or len(end) != 1:
            ctx.add(['C18'], 'H-SERDE', sb.key, '%s: the derived serializer writes %d of its %d fields on every path (%d conditional, %d skip_field): an entry does not come back from its JSON form as it was registered' % (ty, len(always), nf, len(fld) - len(always), len(skip)), key='%s|ser-fields' % ty)
        elif missing != nf or short != nf:
            ctx.add(['C18'], 'H-SERDE', R + ty, '%s: the derived deserializer reports a missing field for %d of its %d fields (short sequence: %d): an absent field is silently replaced by a default' % (ty, missing, nf, short), key='%s|de-fields' % ty)
        else:
            ctx.inst('H-SERDE', '%s: all %d fields written unconditionally; all %d required when reading (map and sequence form)' % (ty, nf, nf))
    # a registration that is refused leaves the table as it was: the map is written through a vacant entry,
    # or by an `insert` that a vacancy test (contains_key / get) of the same map dominates — never by an
    # unconditional `insert` (which overwrites first and complains afterwards)
    n_ins = 0
    for x in crate.bodies:
        if not (x.module or '').startswith('truc::record::type_resolver') or '::tests::' in x.path:
            continue
        xd = None
        for bb, tm in x.calls():
            cp = callee_path(tm) or ''
            if not re.match(r'^alloc::collections::btree::map::BTreeMap::<[^>]*>::insert$', cp):
                continue
            xd = xd or local_defs(x)
            rf = trace_value(x, xd, tm['args'][0])[-1]
            on_types = rf[0] == 'ref' and any(isinstance(e, dict) and e.get('name') == 'types' for e in rf[2]['p'])
            if not on_types:
                continue
            n_ins += 1
            dom = x.dominators(unwind=False).get(bb, set())
            tested = False
            for bb2, tm2 in x.calls():
                cp2 = callee_path(tm2) or ''
                if bb2 in dom and bb2 != bb and re.match(r'^alloc::collections::btree::map::BTreeMap::<[^>]*>::(contains_key|get|get_key_value)$', cp2):
                    r2 = trace_value(x, xd, tm2['args'][0])[-1]
                    if r2[0] == 'ref' and any(isinstance(e, dict) and e.get('name') == 'types' for e in r2[2]['p']):
                        tested = True
            if not tested:
                ctx.add(['C18'], 'H-TABLE', x.key, 'the type table is written by an unconditional `BTreeMap::insert` at %s: registering a name that is already there overwrites the entry (even if the call then panics), so the table no longer answers what was registered first' % fmt_span(tm['span']), key='overwrite|%s' % x.path)
    # … and nothing else takes the map mutably (`extend` / `append` overwrite whole ranges of entries, `retain` /
    # `remove` / `clear` / `get_mut` forget or alter what was registered)
    n_mut = 0
    for x in crate.bodies:
        if not (x.module or '').startswith('truc::record::type_resolver') or '::tests::' in x.path:
            continue
        xd = local_defs(x)
        for bb, tm in x.calls():
            if not tm['args']:
                continue
            rf = trace_value(x, xd, tm['args'][0])[-1]
            if rf[0] == 'ref' and 'mut' in str(rf[1]).lower() and any(isinstance(e, dict) and e.get('name') == 'types' for e in rf[2]['p']):
                n_mut += 1
                last = (callee_path(tm) or '').split('::')[-1]
                if last not in ('entry', 'insert'):
                    ctx.add(['C18'], 'H-TABLE', x.key, 'the type table is modified through `%s` at %s: entries that were registered can be overwritten, altered or forgotten without the registration being refused' % (last, fmt_span(tm['span'])), key='table-mutation|%s|%s' % (x.path, last))
    ctx.inst('H-TABLE', 'the table is only written through vacant entries / tested inserts (%d plain inserts, %d mutable uses of the map)' % (n_ins, n_mut))
    # the JSON forms are siblings: every writer serialises the same thing, the map of entries (what the
    # reader, `From<BTreeMap<String, DynamicTypeInfo>>`, takes)
    writers = [x for x in crate.bodies if re.match(r'^%sStaticTypeResolver::to_json_[a-z_]+$' % re.escape(R), x.path)]
    shapes = {}
    for x in writers:
        xd = local_defs(x)
        for bb, tm in x.calls():
            cp = callee_path(tm) or ''
            if cp.startswith('serde_json::') and re.search(r'::to_(value|string|string_pretty|vec|vec_pretty|writer|writer_pretty)$', cp):
                arg = trace_value(x, xd, tm['args'][-1] if 'writer' not in cp else tm['args'][-1])[-1]
                fields = [e.get('name') for e in arg[2]['p'] if isinstance(e, dict) and 'name' in e] if arg[0] == 'ref' else None
                shapes[x.path.split('::')[-1]] = ('field:' + '.'.join(fields)) if fields else ('self' if arg[0] in ('param', 'ref') else arg[0])
    if writers and (len(shapes) != len(writers) or set(shapes.values()) != {'field:types'}):
        ctx.add(['C18'], 'H-SERDE', R + 'StaticTypeResolver', 'the JSON writers of the table do not all serialise the map of entries: %s — a form written by one of them is not what the reader (a map of entries) takes back' % shapes, key='json-writers')
    elif writers:
        ctx.inst('H-SERDE', 'all %d JSON writers serialise `self.types`' % len(writers))
    ctx.floor(['C18'], 'H-TABLE', 5)
    ctx.floor(['C18'], 'H-SERDE', 4)


# -- C03: who writes offsets, and whose ------------------------------------

def taint_ids(b, seeds):
    """Flow-insensitive, type-filtered taint over a body. seeds: local -> set(labels).
    Returns local -> set(labels). References returned by calls may alias the targets
    of `&mut` arguments; values stored through `&mut` arguments taint those targets."""
    taint = defaultdict(set)
    points = defaultdict(set)         # local (reference) -> base locals it may refer to
    for l, s in seeds.items():
        taint[l] |= set(s)

    def mentions(ty):
        return ty is not None and ('DatumId' in ty or 'DatumDefinition' in ty or 'Gap' in ty or 'FittedDatum' in ty or 'InsertData' in ty or 'closure@' in ty)

    def op_base(op):
        p = op_place(op)
        return p['l'] if p is not None else None

    changed = True
    rounds = 0
    while changed and rounds < 60:
        changed = False
        rounds += 1

        def add_t(l, s):
            nonlocal changed
            if l is None:
                return
            if not s <= taint[l]:
                taint[l] |= s
                changed = True

        def add_through(l, s):
            """a store through reference l: what it may point to is tainted"""
            add_t(l, s)
            for tgt in list(points[l]):
                add_t(tgt, s)

        def add_p(l, s):
            nonlocal changed
            if l is None:
                return
            if not s <= points[l]:
                points[l] |= s
                changed = True

        for bb, blk in enumerate(b.blocks):
            for st in blk['stmts']:
                if st['k'] != 'assign':
                    continue
                dst = st['place']['l']
                rv = st['rv']
                srcs = []
                if rv['k'] in ('use', 'cast', 'repeat'):
                    srcs = [rv['op']]
                elif rv['k'] in ('ref', 'rawptr', 'copy_for_deref', 'discr'):
                    base = rv['place']['l']
                    add_t(dst, taint[base])
                    if rv['k'] in ('ref', 'rawptr') and (rv.get('bk') == 'mut' or rv.get('mut')):
                        # only mutable borrows can be stored through
                        add_p(dst, ({base} if not rv['place']['p'] or rv['place']['p'][0] != 'deref' else set()) | points[base])
                    elif rv['k'] in ('ref', 'rawptr'):
                        pass
                    else:
                        add_p(dst, points[base])
                elif rv['k'] == 'aggregate':
                    srcs = rv['fields']
                elif rv['k'] in ('bin',):
                    srcs = []
                for op in srcs:
                    sl = op_base(op)
                    if sl is not None:
                        add_t(dst, taint[sl])
                        add_p(dst, points[sl])
                # a store through a reference taints what it points to
                if st['place']['p'] and st['place']['p'][0] == 'deref':
                    add_through(dst, taint[dst])
            t = blk['term']
            if t['k'] == 'call':
                args = [op_base(a) for a in t['args']]
                tys = [(op_place(a) or {}).get('ty') for a in t['args']]
                dst = t['dest']['l']
                dty = t['dest'].get('ty')
                u = set()
                pts = set()
                for a, ty in zip(args, tys):
                    if a is None:
                        continue
                    if mentions(ty):
                        u |= taint[a]
                        pts |= points[a]
                if mentions(dty):
                    add_t(dst, u)
                    # only values that contain references can alias their arguments
                    if '&' in dty or "'_" in dty or 'closure@' in dty:
                        add_p(dst, pts)
                for a, ty in zip(args, tys):
                    if a is not None and ty and ty.startswith('&mut') and mentions(ty):
                        add_through(a, u)
    return taint


STRATEGY_SIG = ['alloc::vec::Vec<truc::record::definition::DatumId>'] * 3


def truc_rule_offsets(ctx, crate):
    """W1a/W1c (C03): offsets are written only in strategy code and only for ids being added."""
    OFF_ADT = NDD
    writers = {}     # body key -> list of (bb, stmt)
    for b in crate.bodies:
        for bb, si, st in b.statements():
            if writes_field(st, OFF_ADT, 'offset'):
                where = fmt_span(st.get('span'))
                if not in_strategy_module(b):
                    ctx.add(['C03'], 'W1a', b.key, 'the offset of a datum is assigned at %s, outside the variant-closing strategies (module %s)' % (where, b.module), key='%s|write' % b.key)
                else:
                    ctx.inst('W1a', '%s writes NativeDatumDetails.offset at %s' % (b.path.split('::')[-1], where))
                    writers.setdefault(b.key, (b, []))[1].append((bb, st))
    ctx.floor(['C03'], 'W1a', 3)

    def id_operand_of_write(b, defs, st):
        """the DatumId handed to DatumDefinitionCollection::get_mut for the definition being written"""
        base = st['place']['l']
        cur = {'copy': {'l': base, 'p': [], 'ty': None}}
        for _ in range(12):
            s = trace_value(b, defs, cur)
            t = s[-1]
            if t[0] != 'call':
                return None
            p = callee_path(t[1])
            if p == DDC + 'get_mut':
                return t[1]['args'][1]
            if p in (T + 'DatumDefinition::<D>::details_mut', 'core::option::Option::<T>::unwrap_or_else', 'core::option::Option::<T>::unwrap',
                     'core::option::Option::<T>::expect', 'core::ops::index::IndexMut::index_mut'):
                cur = t[1]['args'][0]
                continue
            return None
        return None

    # helpers that write the offset of one of their parameters
    helper = {}      # path -> param index carrying the id
    for key, (b, sites) in writers.items():
        fn = crate.fns.get(b.path, {})
        ins = fn.get('inputs') or []
        is_strategy = ins[:3] == STRATEGY_SIG and len(ins) == 4
        defs = local_defs(b)
        seeds = {1: {'OLD'}, 2: {'ADD'}, 3: {'REMOVE'}} if is_strategy else {i: {'P%d' % i} for i in range(1, b.arg_count + 1) if 'DatumId' in b.local_ty(i)}
        taint = taint_ids(b, seeds)
        for bb, st in sites:
            idop = id_operand_of_write(b, defs, st)
            where = fmt_span(st.get('span'))
            if idop is None:
                ctx.add(['C03'], 'W1c', b.key, 'cannot determine whose offset is written at %s (not reached through DatumDefinitionCollection::get_mut(id)): unanalysable, fail closed' % where, key='%s|whose' % b.key)
                continue
            labels = taint[op_place(idop)['l']]
            if is_strategy:
                ctx.inst('W1c', '%s: offset written for an id of provenance %s at %s' % (b.path.split('::')[-1], sorted(labels), where))
                if 'OLD' in labels or 'REMOVE' in labels or 'ADD' not in labels:
                    ctx.add(['C03'], 'W1c', b.key, 'the strategy assigns the offset of a datum whose id has provenance %s at %s: only data being added (provenance ADD) may be placed, a datum of an already closed variant must never move' % (sorted(labels), where), key='%s|provenance' % b.key)
            else:
                ps = sorted(int(x[1:]) for x in labels if x.startswith('P'))
                if len(ps) != 1:
                    ctx.add(['C03'], 'W1c', b.key, 'helper writes the offset of an id of unclear origin %s at %s' % (sorted(labels), where), key='%s|helper' % b.key)
                else:
                    helper[b.path] = ps[0]
                    ctx.inst('W1c', 'helper %s writes the offset of its parameter %d' % (b.path.split('::')[-1], ps[0]))
    # call sites of helpers: the id argument must be ADD
    ncs = 0
    for b in crate.bodies:
        sites = [(bb, t) for bb, t in b.calls() if callee_path(t) in helper]
        if not sites:
            continue
        fn = crate.fns.get(b.path, {})
        ins = fn.get('inputs') or []
        is_strategy = ins[:3] == STRATEGY_SIG and len(ins) == 4
        if not in_strategy_module(b) or not is_strategy:
            # a closure a strategy hands to for_each over the ids it was given: its parameter carries
            # the provenance of the iterated values
            ctxs = []
            if b.def_kind == 'Closure':
                for sb in crate.bodies:
                    sfn = crate.fns.get(sb.path, {})
                    sins = sfn.get('inputs') or []
                    if sins[:3] == STRATEGY_SIG and len(sins) == 4 and in_strategy_module(sb) and b in crate.closures_of(sb.path):
                        sdefs = local_defs(sb)
                        staint = taint_ids(sb, {1: {'OLD'}, 2: {'ADD'}, 3: {'REMOVE'}})
                        for fbb, ft, fcb, flab, frv in for_each_closures(crate, sb, sdefs, staint):
                            if fcb is b:
                                ctxs.append((sb, flab))
            if ctxs:
                for sb, flab in ctxs:
                    ctaint = taint_ids(b, {2: set(flab)})
                    for bb, t in sites:
                        ncs += 1
                        a = t['args'][helper[callee_path(t)] - 1]
                        labels = ctaint[op_place(a)['l']]
                        ctx.inst('W1c-call', '%s (for_each closure) calls %s with an id of provenance %s at %s' % (sb.path.split('::')[-1], callee_path(t).split('::')[-1], sorted(labels), fmt_span(t['span'])))
                        if 'OLD' in labels or 'REMOVE' in labels or 'ADD' not in labels:
                            ctx.add(['C03'], 'W1c', b.key, 'the strategy places (through %s) a datum whose id has provenance %s at %s: only data being added may be placed' % (callee_path(t).split('::')[-1], sorted(labels), fmt_span(t['span'])), key='%s|helper-provenance' % b.key)
                continue
            for bb, t in sites:
                ctx.add(['C03'], 'W1c', b.key, 'offset-writing helper %s is called at %s from code that is not a variant-closing strategy' % (callee_path(t).split('::')[-1], fmt_span(t['span'])), key='%s|helper-call' % b.key)
            continue
        taint = taint_ids(b, {1: {'OLD'}, 2: {'ADD'}, 3: {'REMOVE'}})
        for bb, t in sites:
            ncs += 1
            a = t['args'][helper[callee_path(t)] - 1]
            labels = taint[op_place(a)['l']]
            ctx.inst('W1c-call', '%s calls %s with an id of provenance %s at %s' % (b.path.split('::')[-1], callee_path(t).split('::')[-1], sorted(labels), fmt_span(t['span'])))
            if 'OLD' in labels or 'REMOVE' in labels or 'ADD' not in labels:
                ctx.add(['C03'], 'W1c', b.key, 'the strategy places (through %s) a datum whose id has provenance %s at %s: only data being added may be placed' % (callee_path(t).split('::')[-1], sorted(labels), fmt_span(t['span'])), key='%s|helper-provenance' % b.key)
    ctx.floor(['C03'], 'W1c', 3)
    ctx.floor(['C03'], 'W1c-call', 3)
    # W1d: what the generic builder hands to the strategy
    b = crate.body(GB + 'close_record_variant_with')
    if b is None:
        ctx.add(['C03', 'C12'], 'W1d', GB + 'close_record_variant_with', 'function not found (anchor lost)', key='anchor')
        return
    defs = local_defs(b)
    calls = [(bb, t) for bb, t in b.calls() if callee_path(t, resolved=False) == T + 'builder::generic::variant::RecordVariantBuilder::build']
    if len(calls) != 1:
        ctx.add(['C03', 'C12'], 'W1d', b.key, 'expected exactly one call of the strategy, found %d' % len(calls), key='calls')
        return
    t = calls[0][1]

    def taken_field(op):
        s = trace_value(b, defs, op)
        x = s[-1]
        if x[0] == 'place' and len([e for e in x[1]['p'] if isinstance(e, dict) and 'name' in e]) == 1:
            # a field of a group of pending lists taken as a whole: `let Pending { data_to_add, .. } = take(&mut self.pending)`
            fname = [e.get('name') for e in x[1]['p'] if isinstance(e, dict) and 'name' in e][0]
            whole = trace_value(b, defs, {'copy': {'l': x[1]['l'], 'p': [], 'ty': None}})[-1]
            if whole[0] == 'call' and callee_path(whole[1]) == 'core::mem::take':
                y = trace_value(b, defs, whole[1]['args'][0])[-1]
                if y[0] == 'ref' and y[2]['l'] == 1 and y[1] == 'mut':
                    return [fname]
            return None
        if x[0] == 'call' and callee_path(x[1]) == 'core::mem::take':
            r = trace_value(b, defs, x[1]['args'][0])
            y = r[-1]
            if y[0] == 'ref' and y[2]['l'] == 1:
                return [e.get('name') for e in y[2]['p'] if isinstance(e, dict) and 'name' in e][-1:]
        return None
    a2, a3 = taken_field(t['args'][2]), taken_field(t['args'][3])
    r4 = trace_value(b, defs, t['args'][4])[-1]
    f4 = [e.get('name') for e in r4[2]['p'] if isinstance(e, dict) and 'name' in e] if r4[0] == 'ref' and r4[2]['l'] == 1 else None
    s1 = trace_value(b, defs, t['args'][1])[-1]
    ok1 = s1[0] == 'call' and callee_path(s1[1]) in ('core::option::Option::<T>::unwrap_or_default',)
    if ok1:
        m = trace_value(b, defs, s1[1]['args'][0])[-1]
        ok1 = m[0] == 'call' and callee_path(m[1]) == 'core::option::Option::<T>::map'
        if ok1:
            l = trace_value(b, defs, m[1]['args'][0])[-1]
            ok1 = l[0] == 'call' and callee_path(l[1]) == 'core::slice::<impl [T]>::last'
            # the mapping closure clones `.data`
            cl = crate.closures_of(b.path)
            okc = False
            for c in cl:
                for bb2, t2 in c.calls():
                    if callee_path(t2, resolved=False) == 'core::clone::Clone::clone':
                        pl = trace_value(c, local_defs(c), t2['args'][0])[-1]
                        if pl[0] == 'ref' and [e.get('name') for e in pl[2]['p'] if isinstance(e, dict) and 'name' in e] == ['data']:
                            okc = True
            ok1 = ok1 and okc
    if not ok1:
        # `match self.variants.last() { Some(v) => v.data.clone(), None => Vec::new() }` (possibly in an
        # inlined helper): every source of the argument is a clone of `.data` of the payload of
        # variants.last(), or an empty vector
        kinds = set()
        for s_ in sources(b, defs, t['args'][1]):
            if s_[0] == 'call' and (callee_path(s_[1]) or '').startswith('alloc::vec::Vec::<T>::new'):
                kinds.add('empty')
                continue
            if s_[0] == 'call' and callee_path(s_[1], resolved=False) in ('core::clone::Clone::clone',) and s_[1]['args']:
                pl = trace_value(b, defs, s_[1]['args'][0])[-1]
                if pl[0] == 'ref' and [e.get('name') for e in pl[2]['p'] if isinstance(e, dict) and 'name' in e][-1:] == ['data']:
                    base = trace_value(b, defs, {'copy': {'l': pl[2]['l'], 'p': [], 'ty': None}})[-1]
                    if base[0] == 'place' and any(isinstance(e, dict) and e.get('name') == 'Some' for e in base[1]['p']):
                        lst = trace_value(b, defs, {'copy': {'l': base[1]['l'], 'p': [], 'ty': None}})[-1]
                        if lst[0] == 'call' and callee_path(lst[1]) == 'core::slice::<impl [T]>::last':
                            sfl = self_field_of(b, defs, lst[1]['args'][0])
                            if sfl and sfl[0] == ['variants']:
                                kinds.add('clone')
                                continue
            kinds.add('?')
        ok1 = kinds == {'empty', 'clone'}
    if a2 != ['data_to_add'] or a3 != ['data_to_remove'] or f4 != ['datum_definitions'] or not ok1:
        ctx.add(['C03', 'C12'], 'W1d', b.key, 'the strategy is not handed (clone of the last variant\'s data, take(data_to_add), take(data_to_remove), &mut datum_definitions): got (%s, %s, %s, %s)' % ('ok' if ok1 else '?', a2, a3, f4), key='args')
    else:
        ctx.inst('W1d', 'build(last.data.clone() or default, take(data_to_add), take(data_to_remove), &mut datum_definitions)')
    ctx.floor(['C03', 'C12'], 'W1d', 1)


# -- C13: sentinel offsets ---------------------------------------------------

def truc_rule_sentinel(ctx, crate):
    """S-SENTINEL / S-RAW: code that walks the raw datum collection (which also holds data that were added and
    removed again before their variant was closed: offset = usize::MAX, type possibly unnameable) must not do
    arithmetic on offsets, and the generator must not take names / sizes from it — unless it tells the
    never-placed data apart first (a comparison of the offset with the placeholder)."""
    RAW = {DDC + 'iter', T + 'RecordDefinition::<D>::datum_definitions'}
    OFFSET = NDD + '::offset'
    n = 0

    def offset_locals(x):
        out = set()
        for bb, t in x.calls():
            if callee_path(t) == OFFSET and not t['dest']['p']:
                out.add(t['dest']['l'])
        for _, _, st in x.statements():
            if st['k'] == 'assign' and st['rv']['k'] == 'use' and op_place(st['rv']['op']) and not st['place']['p'] and \
                    any(isinstance(e, dict) and e.get('adt') == NDD and e.get('name') == 'offset' for e in op_place(st['rv']['op'])['p']):
                out.add(st['place']['l'])
        # copies
        for _ in range(3):
            for _, _, st in x.statements():
                if st['k'] == 'assign' and st['rv']['k'] == 'use' and not st['place']['p'] and op_local(st['rv']['op']) in out:
                    out.add(st['place']['l'])
        return out

    def uses(x, offs):
        arith, guarded = [], False
        for _, _, st in x.statements():
            if st['k'] != 'assign' or st['rv']['k'] != 'bin':
                continue
            rv = st['rv']
            sides = [op_local(rv['l']), op_local(rv['r'])]
            if not any(s in offs for s in sides if s is not None):
                continue
            if rv['op'] in ('Eq', 'Ne'):
                other = rv['r'] if op_local(rv['l']) in offs else rv['l']
                if op_int(other) == USIZE_MAX:
                    guarded = True
            elif rv['op'].startswith(('Add', 'Sub', 'Mul')):
                arith.append(st)
        return arith, guarded

    for b in crate.bodies:
        if b.def_kind == 'Closure' or b.promoted is not None:
            continue
        group = [b] + crate.closures_of(b.path)
        raw = [(x, t) for x in group for bb, t in x.calls() if callee_path(t) in RAW]
        if not raw or b.path in RAW:
            continue
        n += 1
        arith, guarded = [], False
        for x in group:
            a_, g_ = uses(x, offset_locals(x))
            arith += a_
            guarded = guarded or g_
        ctx.inst('S-SENTINEL', '%s walks the raw datum collection; arithmetic on offsets: %d, placeholder test: %s' % (b.path, len(arith), guarded))
        if arith and not guarded:
            ctx.add(['C13'], 'S-SENTINEL', b.key, 'walks every datum definition (including data that were added and removed before their variant was closed, whose offset is the placeholder usize::MAX) and does arithmetic on offsets at %s without telling the placeholder apart: it overflows' % fmt_span(arith[0].get('span')), key='%s|offset' % b.path)
        if (b.module or '').startswith('truc::generator') and not guarded:
            t0 = raw[0][1]
            ctx.add(['C13', 'C11'], 'S-RAW', b.key, 'the generator walks every datum definition at %s, including data withdrawn before their variant was closed, without telling them apart: their type names / sizes end up in the generated module although they are fields of no variant' % fmt_span(t0['span']), key='%s|raw' % b.path)
    ctx.inst('S-RAW', 'raw datum-collection walks examined: %d' % n)
    ctx.inst('S-SENTINEL', 'bodies walking the raw datum collection examined: %d' % n)


# -- C12: builder state machine ----------------------------------------------

def switch_info(b, defs, bb):
    """For a switch block: (source, polarity_flipped). source = ('call', term) behind the
    discriminant, looking through `Not`, `is_some`-like wrappers are kept as calls."""
    t = b.blocks[bb]['term']
    if t['k'] != 'switch':
        return None
    flipped = False
    cur = t['d']
    for _ in range(8):
        s = trace_value(b, defs, cur)
        x = s[-1]
        if x[0] == 'rv' and x[1]['k'] == 'un' and x[1]['op'] == 'Not':
            flipped = not flipped
            cur = x[1]['o']
            continue
        if x[0] == 'rv' and x[1]['k'] == 'discr':
            pl = x[1]['place']
            if not pl['p']:
                y = trace_value(b, defs, {'copy': pl})[-1]
                return ('discr', y, flipped)
            return ('discr', ('place', pl), flipped)
        return ('val', x, flipped)
    return None


def edge_for(b, bb, truth):
    """target block of a boolean switch for the given truth value"""
    t = b.blocks[bb]['term']
    tg = dict(t['targets'])
    if truth:
        return tg.get(1, t['otherwise'])
    return tg.get(0, t['otherwise']) if 0 in tg else t['otherwise']


KNOWN_BUILDER_FIELDS = ('data_to_add', 'data_to_remove', 'variants', 'datum_definitions')


def self_field_of(b, defs, op):
    """operand that is (a reborrow of) &[mut] (*_1).<fields…> -> (names, is_mut) else None"""
    s = trace_value(b, defs, op)
    x = s[-1]
    if x[0] == 'ref' and x[2]['l'] == 1 and x[2]['p'] and x[2]['p'][0] == 'deref':
        names = [e.get('name') for e in x[2]['p'][1:] if isinstance(e, dict) and 'name' in e]
        # (`self.pending.data_to_add` is the same list as `self.data_to_add`: the innermost field names it)
        return (names[-1:] if len(names) > 1 and names[-1] in KNOWN_BUILDER_FIELDS else names), x[1] == 'mut'
    if x[0] == 'call' and callee_path(x[1]) in ('<alloc::vec::Vec<T, A> as core::ops::deref::Deref>::deref', '<alloc::vec::Vec<T, A> as core::ops::deref::DerefMut>::deref_mut'):
        return self_field_of(b, defs, x[1]['args'][0])
    if x[0] == 'param' and x[1] == 1:
        return [], None
    return None


def mutating_blocks(b, defs):
    out = {}
    for bb, blk in enumerate(b.blocks):
        if blk['cleanup']:
            continue
        for st in blk['stmts']:
            if st['k'] == 'assign' and st['place']['l'] == 1 and st['place']['p'] and st['place']['p'][0] == 'deref':
                out[bb] = 'assignment to %s' % place_str(st['place'])
        t = blk['term']
        if t['k'] == 'call':
            for a in t['args']:
                sf = self_field_of(b, defs, a)
                if sf is not None and sf[1]:
                    out[bb] = '%s(&mut self.%s, ..)' % ((callee_path(t) or '?').split('::')[-1], '.'.join(sf[0]))
    return out


def err_blocks(b):
    out = []
    for bb, si, st in b.statements():
        if st['k'] == 'assign' and st['place']['l'] == 0 and st['rv']['k'] == 'aggregate' and st['rv'].get('adt') == 'core::result::Result' and st['rv'].get('variant') == 'Err':
            out.append(bb)
    # an error propagated with `?`: `_0 = from_residual(..)`
    for bb, t in b.calls():
        if (callee_path(t) or '').endswith('::from_residual') and t['dest']['l'] == 0 and not t['dest']['p'] and not b.blocks[bb]['cleanup']:
            out.append(bb)
    return out


TRUNCATING = re.compile(r'::(take_while|skip_while|map_while|take|skip|step_by|nth|nth_back)$')
SEARCH_ADAPTORS = ('::position', '::rposition', '::find', '::any')
_ORD = ('PartialOrd::lt', 'PartialOrd::le', 'PartialOrd::gt', 'PartialOrd::ge', 'PartialOrd::partial_cmp', 'Ord::cmp')


def predicate_kinds(crate, cb, depth=0):
    """Which comparisons a predicate closure makes: a set over {'eq', 'ne', 'ord', 'not'} ('not' = a boolean
    negation somewhere).  Calls of other closures / private helpers of the crate are followed (bounded)."""
    kinds = set()
    for _, _, st in cb.statements():
        if st['k'] != 'assign':
            continue
        rv = st['rv']
        if rv['k'] == 'bin':
            if rv['op'] == 'Eq':
                kinds.add('eq')
            elif rv['op'] == 'Ne':
                kinds.add('ne')
            elif rv['op'] in ('Lt', 'Le', 'Gt', 'Ge', 'Cmp'):
                kinds.add('ord')
        elif rv['k'] == 'un' and rv['op'] == 'Not' and (cb.local_ty(st['place']['l']) == 'bool' if not st['place']['p'] else False):
            kinds.add('not')
    for _, tm in cb.calls():
        dp = (callee_decl_path(tm) or '') + ' ' + (callee_path(tm) or '')
        if 'PartialEq::eq' in dp or 'PartialEq>::eq' in dp:
            kinds.add('eq')
        elif 'PartialEq::ne' in dp or 'PartialEq>::ne' in dp:
            kinds.add('ne')
        elif any(o in dp for o in _ORD) or any(o.replace('::', '>::') in dp for o in _ORD):
            kinds.add('ord')
        elif depth < 2:
            inner = crate.lookup(callee_path(tm)) if callee_path(tm) else None
            if inner is not None and inner.crate_name == cb.crate_name if hasattr(cb, 'crate_name') else False:
                kinds |= predicate_kinds(crate, inner, depth + 1)
    return kinds


def search_predicates(ctx, crate, b, rule, props, what):
    """Every closure handed to an iterator search (`position`, `rposition`, `find`, `any`) in `b` must be a
    plain equality test: membership of an id / a name is decided by `==`, never by an ordering or a negation."""
    defs = local_defs(b)
    n = 0
    for bb, t in b.calls():
        cp = (callee_decl_path(t) or callee_path(t) or '')
        if not cp.endswith(SEARCH_ADAPTORS) or 'Iterator' not in cp or len(t['args']) != 2:
            continue
        cl = trace_value(b, defs, t['args'][1])[-1]
        if not (cl[0] == 'rv' and cl[1]['k'] == 'aggregate' and cl[1].get('closure')):
            continue
        cb = crate.lookup(cl[1]['closure'])
        if cb is None:
            continue
        kinds = predicate_kinds(crate, cb)
        n += 1
        if kinds == {'eq'}:
            ctx.inst(rule, '%s: the predicate handed to `%s` at %s is an equality test' % (what, cp.split('::')[-1], fmt_span(t['span'])))
        elif kinds & {'ord', 'ne', 'not'}:
            ctx.add(list(props), rule, b.key, '%s: the predicate handed to `%s` at %s is not a plain equality test (it uses %s): another element than the one asked for can be taken for it' % (
                what, cp.split('::')[-1], fmt_span(t['span']), ', '.join(sorted({'ord': 'an ordering comparison', 'ne': '`!=`', 'not': 'a negation', 'eq': '`==`'}[k] for k in kinds))), key='predicate|%s' % cp.split('::')[-1])
    return n


def truc_rule_builder(ctx, crate):
    # B-PURE: rejected requests leave the builder untouched
    for name, nerr in (('add_datum', 1), ('remove_datum', 3)):
        b = crate.body(GB + name)
        if b is None:
            ctx.add(['C12'], 'B-PURE', GB + name, 'function not found (anchor lost)', key='anchor|%s' % name)
            continue
        defs = local_defs(b)
        muts = mutating_blocks(b, defs)
        errs = err_blocks(b)
        for e in errs:
            ctx.inst('B-PURE', '%s: error return at bb%d' % (name, e))
        if len(errs) < 1:
            ctx.add(['C12'], 'B-PURE', b.key, '%s has no error return: an invalid request cannot be rejected' % name, key='%s|errs' % name)
        for m, what in muts.items():
            reach = feasible_reach(b, m)
            hit = [e for e in errs if e in reach]
            if hit:
                ctx.add(['C12'], 'B-PURE', b.key, '%s mutates the builder (%s in bb%d) on a path that then returns Err (bb%d): a rejected request changes the observable state' % (name, what, m, hit[0]), key='%s|mutate-then-err' % name)
    ctx.floor(['C12'], 'B-PURE', 2)

    # B-GUARD-DUP
    b = crate.body(GB + 'add_datum')
    if b is not None:
        defs = local_defs(b)
        push = [bb for bb, t in b.calls() if callee_path(t) == DDC + 'push']
        guard = None
        for bb in range(len(b.blocks)):
            si = switch_info(b, defs, bb)
            if si and si[0] == 'val' and si[1][0] == 'call' and callee_path(si[1][1]) in ('core::option::Option::<T>::is_some', 'core::option::Option::<T>::is_none'):
                inner = trace_value(b, defs, si[1][1]['args'][0])[-1]
                if inner[0] == 'ref':
                    inner = trace_value(b, defs, {'copy': {'l': inner[2]['l'], 'p': [], 'ty': None}})[-1]
                if inner[0] == 'call' and callee_path(inner[1]) == GB + 'get_current_datum_definition_by_name':
                    is_some = callee_path(si[1][1]).endswith('is_some')
                    name_arg = trace_value(b, defs, inner[1]['args'][1])
                    free_truth = (not is_some) != si[2]       # truth value of the switch operand meaning "name is free"
                    guard = (bb, edge_for(b, bb, free_truth), edge_for(b, bb, not free_truth))
        by_paths = None
        if len(push) == 1 and guard is None:
            # no `is_some()` switch: follow every path to the push with what it learnt about the answer of the
            # lookup (a `match`, a helper returning Result and `?`, …)
            import convcheck
            try:
                pts = convcheck.tail_paths(b, 0, None, roots=lambda tm: ('lookup',) if callee_path(tm) == GB + 'get_current_datum_definition_by_name' else None)
                seen_push = 0
                by_paths = True
                for pt in pts:
                    for (bb_, tm, av, snap) in pt['calls']:
                        if callee_path(tm) == DDC + 'push':
                            seen_push += 1
                            if snap.get(('lookup',)) != 'None':
                                by_paths = False
                if not seen_push:
                    by_paths = None
            except convcheck.CUnanalysable:
                by_paths = None
        if len(push) != 1 or (guard is None and by_paths is None):
            ctx.add(['C12'], 'B-GUARD-DUP', b.key, 'add_datum: cannot find the single datum_definitions.push (%d) guarded by the duplicate-name lookup (%s)' % (len(push), guard), key='shape')
        else:
            if guard is None:
                if by_paths:
                    ctx.inst('B-GUARD-DUP', 'every path to the push has seen the lookup answer None')
                else:
                    ctx.add(['C12'], 'B-GUARD-DUP', b.key, 'a datum can be pushed without the duplicate-name lookup having answered "free"', key='bypass')
            else:
                reach = b.reachable(0, unwind=False, removed_edges=[(guard[0], guard[1])])
                if push[0] in reach:
                    ctx.add(['C12'], 'B-GUARD-DUP', b.key, 'a datum can be pushed without the duplicate-name lookup having answered "free"', key='bypass')
                else:
                    ctx.inst('B-GUARD-DUP', 'push is reachable only through the "name is free" edge bb%d->bb%d' % (guard[0], guard[1]))
                # … and a taken name is the only reason to refuse an addition: every error return sits behind
                # the "name is taken" edge (another rejection refuses a request the property counts as valid,
                # and makes acceptance depend on the order of the requests)
                eb = err_blocks(b)
                reach2 = b.reachable(0, unwind=False, removed_edges=[(guard[0], guard[2])])
                extra = [x for x in eb if x in reach2]
                if extra:
                    ctx.add(['C12', 'C20'], 'B-GUARD-DUP', b.key, 'add_datum can refuse a request (error return in bb%s) for another reason than a name that is taken in the current variant: a valid addition is rejected, and a definition the builder accepted in one order of requests cannot be replayed in another' % ','.join(map(str, extra)), key='extra-rejection')
                elif eb:
                    ctx.inst('B-GUARD-DUP', 'every error return of add_datum (%d) is behind the "name is taken" edge' % len(eb))
            # data_to_add.push(id) with id = the result of that push
            dta = [(bb, t) for bb, t in b.calls() if callee_path(t) == 'alloc::vec::Vec::<T, A>::push' and (self_field_of(b, defs, t['args'][0]) or [None])[0] == ['data_to_add']]
            okid = len(dta) == 1 and trace_value(b, defs, dta[0][1]['args'][1])[-1][0] == 'call' and callee_path(trace_value(b, defs, dta[0][1]['args'][1])[-1][1]) == DDC + 'push'
            if not okid:
                ctx.add(['C12'], 'B-GUARD-DUP', b.key, 'the id recorded as pending addition is not the id returned by datum_definitions.push', key='pending-id')
            else:
                ctx.inst('B-GUARD-DUP', 'data_to_add.push(id returned by datum_definitions.push)')
    ctx.floor(['C12'], 'B-GUARD-DUP', 2)

    # B-GUARD-RM
    b = crate.body(GB + 'remove_datum')
    if b is not None:
        defs = local_defs(b)
        closures = {c.path: c for c in crate.closures_of(b.path)}

        def position_source(op):
            """index operand -> which self field the `position` iterated over"""
            x = trace_value(b, defs, op)[-1]
            if x[0] != 'place':
                return None
            base = trace_value(b, defs, {'copy': {'l': x[1]['l'], 'p': [], 'ty': None}})[-1]
            fidx = [e['f'] for e in x[1]['p'] if isinstance(e, dict) and 'f' in e]
            if base[0] == 'rv' and base[1]['k'] == 'aggregate' and base[1].get('ak') == 'tuple' and fidx and fidx[0] < len(base[1]['fields']):
                # matched as a component of a tuple: `match (present, pending_index) { (false, Some(index)) => … }`
                base = trace_value(b, defs, base[1]['fields'][fidx[0]])[-1]
            if base[0] != 'call' or not (callee_path(base[1]) or '').endswith('::position'):
                return None
            it = trace_value(b, defs, base[1]['args'][0])[-1]
            if it[0] == 'ref':
                it = trace_value(b, defs, {'copy': {'l': it[2]['l'], 'p': [], 'ty': None}})[-1]
            if it[0] == 'call' and callee_path(it[1]) == 'core::slice::<impl [T]>::iter':
                sf = self_field_of(b, defs, it[1]['args'][0])
                return sf[0] if sf else None
            return None
        n = 0
        for bb, t in b.calls():
            p = callee_path(t)
            sf = self_field_of(b, defs, t['args'][0]) if t['args'] else None
            if p == 'alloc::vec::Vec::<T, A>::remove' and sf and sf[0] == ['data_to_add']:
                src = position_source(t['args'][1])
                n += 1
                if src != ['data_to_add']:
                    ctx.add(['C12'], 'B-GUARD-RM', b.key, 'data_to_add.remove(i) at %s with i that is not the position of the id in data_to_add (%s)' % (fmt_span(t['span']), src), key='remove-index')
                else:
                    ctx.inst('B-GUARD-RM', 'data_to_add.remove(position of id in data_to_add) at %s' % fmt_span(t['span']))
            elif p == 'alloc::vec::Vec::<T, A>::push' and sf and sf[0] == ['data_to_remove']:
                n += 1
                # guarded by contains(&id) == false on data_to_remove
                guard = None
                for sb in range(len(b.blocks)):
                    si = switch_info(b, defs, sb)
                    if si and si[0] == 'val' and si[1][0] == 'call' and callee_path(si[1][1]) == 'core::slice::<impl [T]>::contains':
                        rf = self_field_of(b, defs, si[1][1]['args'][0])
                        arg = trace_value(b, defs, si[1][1]['args'][1])[-1]
                        if rf and rf[0] == ['data_to_remove'] and arg[0] == 'ref' and arg[2]['l'] == 2:
                            guard = (sb, edge_for(b, sb, si[2]), edge_for(b, sb, not si[2]))   # "contains" true edge / false edge
                if guard is None:
                    def sym_already(tm):
                        if callee_path(tm) == 'core::slice::<impl [T]>::contains' and len(tm['args']) == 2:
                            rf_ = self_field_of(b, defs, tm['args'][0])
                            a_ = trace_value(b, defs, tm['args'][1])[-1]
                            if rf_ and rf_[0] == ['data_to_remove'] and a_[0] == 'ref' and a_[2]['l'] == 2:
                                return ('already', True)
                        return None
                    ways = paths_reaching(b, bb, sym_already)
                    if ways and all(w.get('already') is False for w in ways):
                        ctx.inst('B-GUARD-RM', 'data_to_remove.push only when the id is not recorded as removed yet (%d paths)' % len(ways))
                    else:
                        ctx.add(['C12'], 'B-GUARD-RM', b.key, 'data_to_remove.push is not guarded by data_to_remove.contains(&id)', key='contains')
                else:
                    reach = b.reachable(0, unwind=False, removed_edges=[(guard[0], guard[1])])
                    if bb in reach:
                        ctx.add(['C12'], 'B-GUARD-RM', b.key, 'an id can be pushed to data_to_remove although it is already there (removing a datum twice is accepted)', key='twice')
                    else:
                        ctx.inst('B-GUARD-RM', 'data_to_remove.push only on the !contains edge bb%d->bb%d' % (guard[0], guard[1]))
                # and by "present in the last variant": a test (position().is_some(), any(), contains(),
                # find().is_some()) over the data of `self.variants.last()`
                def over_last_variant_data(op, depth=0):
                    x = trace_value(b, defs, op)[-1]
                    if depth > 8:
                        return False
                    if x[0] == 'ref':
                        names = [e.get('name') for e in x[2]['p'] if isinstance(e, dict) and 'name' in e]
                        if 'data' in names and any(isinstance(e, dict) and e.get('adt') == T + 'RecordVariant' for e in x[2]['p']):
                            return True
                        if not x[2]['p']:
                            return over_last_variant_data({'copy': x[2]}, depth + 1)
                        return False
                    if x[0] == 'call' and x[1]['args']:
                        return over_last_variant_data(x[1]['args'][0], depth + 1)
                    return False
                def presence_call(bx, dx, call, data_pred):
                    """(inner call, positive) when `call` answers whether the id is in the data `data_pred` accepts."""
                    cp = callee_path(call) or ''
                    if cp in ('core::option::Option::<T>::is_some', 'core::option::Option::<T>::is_none'):
                        i0 = trace_value(bx, dx, call['args'][0])[-1]
                        if i0[0] == 'ref':
                            i0 = trace_value(bx, dx, {'copy': {'l': i0[2]['l'], 'p': [], 'ty': None}})[-1]
                        if i0[0] == 'call' and ((callee_path(i0[1]) or '').endswith('::position') or (callee_path(i0[1]) or '').endswith('::find')) and data_pred(bx, dx, i0[1]['args'][0]):
                            return cp.endswith('is_some')
                    elif (cp.endswith('::any') or cp.endswith('::contains')) and data_pred(bx, dx, call['args'][0]):
                        return True
                    return None

                def variant_data(bx, dx, op, depth=0):
                    x = trace_value(bx, dx, op)[-1]
                    if depth > 8:
                        return False
                    if x[0] == 'ref':
                        names = [e.get('name') for e in x[2]['p'] if isinstance(e, dict) and 'name' in e]
                        if 'data' in names and any(isinstance(e, dict) and e.get('adt') == T + 'RecordVariant' for e in x[2]['p']):
                            return True
                        if not x[2]['p']:
                            return variant_data(bx, dx, {'copy': x[2]}, depth + 1)
                        return False
                    if x[0] == 'call' and x[1]['args']:
                        return variant_data(bx, dx, x[1]['args'][0], depth + 1)
                    return False

                def mapped_presence(op):
                    """`self.variants.last().map(|variant| <id in variant.data>)`: Option<bool> whose Some(true) means present."""
                    x = trace_value(b, defs, op)[-1]
                    if x[0] == 'ref' and not x[2]['p']:
                        x = trace_value(b, defs, {'copy': x[2]})[-1]
                    if x[0] != 'call' or callee_path(x[1]) != 'core::option::Option::<T>::map':
                        return False
                    src = trace_value(b, defs, x[1]['args'][0])[-1]
                    if not (src[0] == 'call' and (callee_path(src[1]) or '').endswith('::last')):
                        return False
                    sfl = self_field_of(b, defs, src[1]['args'][0])
                    if not sfl or sfl[0] != ['variants']:
                        return False
                    cl = trace_value(b, defs, x[1]['args'][1])[-1]
                    if cl[0] != 'rv' or cl[1]['k'] != 'aggregate' or not cl[1].get('closure'):
                        return False
                    cb = crate.lookup(cl[1]['closure'])
                    if cb is None:
                        return False
                    cd = local_defs(cb)
                    r = trace_value(cb, cd, {'copy': {'l': 0, 'p': [], 'ty': None}})[-1]
                    return r[0] == 'call' and presence_call(cb, cd, r[1], variant_data) is True

                def const_some_true(op):
                    x = trace_value(b, defs, op)
                    for s_ in x:
                        if s_[0] == 'const' and 'promoted' in s_[1]:
                            pb = crate.lookup(b.path, promoted=s_[1]['promoted'])
                            if pb is None:
                                return False
                            for _, _, ps in pb.statements():
                                if ps['k'] == 'assign' and ps['rv']['k'] == 'aggregate' and ps['rv'].get('variant') == 'Some' and op_int(ps['rv']['fields'][0]) == 1:
                                    return True
                    return False

                g2 = None
                for sb in range(len(b.blocks)):
                    si = switch_info(b, defs, sb)
                    if not si or si[0] != 'val' or si[1][0] != 'call':
                        continue
                    call = si[1][1]
                    cp = callee_path(call) or ''
                    if cp in ('<core::option::Option<T> as core::cmp::PartialEq>::eq', '<core::option::Option<T> as core::cmp::PartialEq>::ne', 'core::cmp::PartialEq::eq', 'core::cmp::PartialEq::ne') and len(call['args']) == 2:
                        a0, a1 = call['args']
                        hit = (mapped_presence(a0) and const_some_true(a1)) or (mapped_presence(a1) and const_some_true(a0))
                        if hit:
                            present_truth = (not cp.endswith('::ne')) != si[2]
                            g2 = (sb, edge_for(b, sb, present_truth))
                        continue
                    inner = None
                    if cp in ('core::option::Option::<T>::is_some', 'core::option::Option::<T>::is_none'):
                        i0 = trace_value(b, defs, call['args'][0])[-1]
                        if i0[0] == 'ref':
                            i0 = trace_value(b, defs, {'copy': {'l': i0[2]['l'], 'p': [], 'ty': None}})[-1]
                        if i0[0] == 'call' and ((callee_path(i0[1]) or '').endswith('::position') or (callee_path(i0[1]) or '').endswith('::find')):
                            inner = i0[1]
                        positive = cp.endswith('is_some')
                    elif cp.endswith('::any') or cp.endswith('::contains'):
                        inner = call
                        positive = True
                    if inner is None or not over_last_variant_data(inner['args'][0]):
                        continue
                    present_truth = positive != si[2]
                    g2 = (sb, edge_for(b, sb, present_truth))
                if g2 is None:
                    # no single switch to point at: follow every path to the push with the truth values it
                    # assumed for "the id is in the last variant" (booleans carried through locals, tuples, `!`)
                    def sym_present(tm):
                        cp_ = callee_path(tm) or ''
                        r_ = presence_call(b, defs, tm, lambda bx, dx, o: over_last_variant_data(o))
                        if r_ is not None:
                            return ('present', r_)
                        if cp_ in ('core::option::Option::<T>::map_or', 'core::option::Option::<T>::is_some_and') and len(tm['args']) >= 2:
                            # last().map_or(false, |variant| <id in variant.data>)
                            src_ = trace_value(b, defs, tm['args'][0])[-1]
                            dflt_ok = cp_.endswith('is_some_and') or op_int(tm['args'][1]) == 0
                            if dflt_ok and src_[0] == 'call' and (callee_path(src_[1]) or '').endswith('::last'):
                                sfl_ = self_field_of(b, defs, src_[1]['args'][0])
                                cl_ = trace_value(b, defs, tm['args'][-1])[-1]
                                if sfl_ and sfl_[0] == ['variants'] and cl_[0] == 'rv' and cl_[1].get('closure'):
                                    cb_ = crate.lookup(cl_[1]['closure'])
                                    if cb_ is not None:
                                        cd_ = local_defs(cb_)
                                        rr_ = trace_value(cb_, cd_, {'copy': {'l': 0, 'p': [], 'ty': None}})[-1]
                                        if rr_[0] == 'call' and presence_call(cb_, cd_, rr_[1], variant_data) is True:
                                            return ('present', True)
                        return None
                    ways = paths_reaching(b, bb, sym_present)
                    if ways and all(w.get('present') is True for w in ways):
                        ctx.inst('B-GUARD-RM', 'data_to_remove.push only when the id is in the last variant (%d paths)' % len(ways))
                    else:
                        ctx.add(['C12'], 'B-GUARD-RM', b.key, 'data_to_remove.push is not guarded by a lookup of the id in the last variant', key='present')
                else:
                    reach = b.reachable(0, unwind=False, removed_edges=[g2])
                    if bb in reach:
                        ctx.add(['C12'], 'B-GUARD-RM', b.key, 'an id that is not in the last variant can be recorded as removed', key='absent')
                    else:
                        ctx.inst('B-GUARD-RM', 'data_to_remove.push only when the id is in the last variant (edge bb%d->bb%d)' % g2)
        if n < 2:
            ctx.add(['C12'], 'B-GUARD-RM', b.key, 'remove_datum performs %d list updates: it needs one that records a removal and one that withdraws a pending addition' % n, key='count')
    # the searches themselves: by equality
    for fn, what, rule in ((GB + 'remove_datum', 'remove_datum', 'B-GUARD-RM'), (GB + 'get_current_datum_definition_by_name', 'duplicate-name lookup', 'B-GUARD-DUP'), (GB + 'add_datum', 'add_datum', 'B-GUARD-DUP')):
        fb = crate.body(fn)
        if fb is not None:
            search_predicates(ctx, crate, fb, rule, ['C12'], what)
    ctx.floor(['C12'], 'B-GUARD-RM', 3)

    # B-NOOP
    b = crate.body(GB + 'close_record_variant_with')
    if b is not None:
        defs = local_defs(b)
        g = None
        for sb in range(len(b.blocks)):
            si = switch_info(b, defs, sb)
            if si and si[0] == 'val' and si[1][0] == 'call' and callee_path(si[1][1]) == GB + 'has_pending_changes':
                g = (sb, edge_for(b, sb, not si[2]), edge_for(b, sb, si[2]))    # pending edge, idle edge
        pushes = [bb for bb, t in b.calls() if callee_path(t) == 'alloc::vec::Vec::<T, A>::push' and (self_field_of(b, defs, t['args'][0]) or [None])[0] == ['variants']]
        builds = [bb for bb, t in b.calls() if callee_path(t, resolved=False) == T + 'builder::generic::variant::RecordVariantBuilder::build']
        if g is None or len(pushes) != 1 or len(builds) != 1:
            ctx.add(['C12'], 'B-NOOP', b.key, 'cannot find has_pending_changes guard / variants.push / strategy call (%s, %s, %s)' % (g, pushes, builds), key='shape')
        else:
            idle = b.reachable(g[2], unwind=False, removed_blocks=[g[0]])
            if pushes[0] in idle or builds[0] in idle:
                ctx.add(['C12'], 'B-NOOP', b.key, 'closing with no pending change can still push a new variant / run the strategy', key='idle-push')
            else:
                ctx.inst('B-NOOP', 'variants.push and the strategy call are unreachable from the "no pending change" edge bb%d->bb%d' % (g[0], g[2]))
            reach = b.reachable(0, unwind=False, removed_edges=[(g[0], g[1])])
            if pushes[0] in reach:
                ctx.add(['C12'], 'B-NOOP', b.key, 'variants.push is reachable without passing the pending-changes test', key='bypass')
            # the new variant: id = variants.len() read before the push, data = strategy result
            agg = [st for _, _, st in b.statements() if st['k'] == 'assign' and st['rv']['k'] == 'aggregate' and st['rv'].get('adt') == T + 'RecordVariant']
            ok = False
            vals = None
            if len(agg) == 1:
                vals = dict(zip(agg[0]['rv']['field_names'], agg[0]['rv']['fields']))
            elif not agg:
                # a constructor function whose body is the plain literal {id: arg, data: arg}
                for bb_, t_ in b.calls():
                    cbody = crate.lookup(callee_path(t_) or '')
                    if cbody is None or cbody.arg_count != len(t_['args']):
                        continue
                    cagg = [st for _, _, st in cbody.statements() if st['k'] == 'assign' and st['rv']['k'] == 'aggregate' and st['rv'].get('adt') == T + 'RecordVariant']
                    if len(cagg) == 1 and len([1 for _ in cbody.calls()]) == 0:
                        cd = local_defs(cbody)
                        m = {}
                        for fname, fop in zip(cagg[0]['rv']['field_names'], cagg[0]['rv']['fields']):
                            src_ = trace_value(cbody, cd, fop)[-1]
                            if src_[0] == 'param':
                                m[fname] = t_['args'][src_[1] - 1]
                        if set(m) == {'id', 'data'}:
                            vals = m
            if vals is not None:
                i = trace_value(b, defs, vals['id'])[-1]
                d = trace_value(b, defs, vals['data'])[-1]
                ok = i[0] == 'call' and ('into' in (callee_path(i[1]) or '') or (callee_path(i[1], resolved=False) or '').endswith('From::from')) and d[0] == 'call' and callee_path(d[1], resolved=False) == T + 'builder::generic::variant::RecordVariantBuilder::build'
                if ok:
                    ln = trace_value(b, defs, i[1]['args'][0])[-1]
                    ok = ln[0] == 'call' and callee_path(ln[1]) == 'alloc::vec::Vec::<T, A>::len' and (self_field_of(b, defs, ln[1]['args'][0]) or [None])[0] == ['variants']
                    if ok:
                        # nothing changes the number of variants between reading it and the push
                        ln_bb = [bb_ for bb_, t_ in b.calls() if t_ is ln[1]][0]
                        between = b.reachable(ln[1]['t'], unwind=False, removed_blocks=[pushes[0]]) if ln[1]['t'] is not None else set()
                        for bb_, t_ in b.calls():
                            if bb_ in between and bb_ != ln_bb and t_['args']:
                                sfx = self_field_of(b, defs, t_['args'][0])
                                if sfx and sfx[0] == ['variants'] and sfx[1]:
                                    ok = False
            if not ok:
                ctx.add(['C12'], 'B-NOOP', b.key, 'the pushed variant is not {id: variants.len(), data: strategy result}', key='variant-literal')
            else:
                ctx.inst('B-NOOP', 'pushed variant = {id: variants.len(), data: strategy result}')
    ctx.floor(['C12'], 'B-NOOP', 2)

    # B-BUILD: every way to the RecordDefinition literal has established that both pending lists are empty
    b = crate.body(GB + 'build')
    if b is not None:
        defs = local_defs(b)
        aggs = [bb for bb, si, st in b.statements() if st['k'] == 'assign' and st['rv']['k'] == 'aggregate' and st['rv'].get('adt') == T + 'RecordDefinition']

        def field_of_self(op):
            sf = self_field_of(b, defs, op)
            if sf is not None:
                return tuple(sf[0][-1:])
            r = trace_value(b, defs, op)[-1]
            if r[0] == 'ref' and r[2]['l'] == 1:          # `self` by value: &_1.field
                return tuple([e.get('name') for e in r[2]['p'] if isinstance(e, dict) and 'name' in e][-1:])
            if r[0] == 'ref' and r[2]['p'] and r[2]['p'][0] == 'deref':
                # through a `&self` helper that was inlined: (*_x).field with _x = &_1
                d0 = single_def(defs, r[2]['l'])
                if d0 and d0[0] == 'stmt' and d0[3]['rv']['k'] == 'ref' and d0[3]['rv']['place']['l'] == 1 and 'deref' not in d0[3]['rv']['place']['p']:
                    # _x = &_1 or &_1.group: (*_x).field is a field of self (possibly inside a private group struct)
                    return tuple([e.get('name') for e in r[2]['p'] if isinstance(e, dict) and 'name' in e][-1:])
            return None

        def sym(tm):
            if callee_path(tm) == 'alloc::vec::Vec::<T, A>::is_empty' and tm['args']:
                f = field_of_self(tm['args'][0])
                if f in (('data_to_add',), ('data_to_remove',)):
                    return f[0]
            return None
        if len(aggs) != 1:
            ctx.add(['C12'], 'B-BUILD', b.key, 'build(): cannot find the RecordDefinition literal', key='shape')
        else:
            ways = paths_reaching(b, aggs[0], sym)
            if not ways:
                ctx.add(['C12'], 'B-BUILD', b.key, 'build(): cannot follow the paths to the RecordDefinition literal (unanalysable: fail closed)', key='shape')
            else:
                for f in ('data_to_add', 'data_to_remove'):
                    if all(w.get(f) is True for w in ways):
                        ctx.inst('B-BUILD', 'RecordDefinition is built only when %s is empty (%d paths)' % (f, len(ways)))
                    else:
                        ctx.add(['C12'], 'B-BUILD', b.key, 'build() can produce a definition although %s is not known to be empty (unclosed changes are silently dropped)' % f, key='bypass-%s' % f)
    ctx.floor(['C12'], 'B-BUILD', 2)

    # B-APPEND
    b = crate.body(DDC + 'push')
    if b is not None:
        defs = local_defs(b)
        pushes = [(bb, t) for bb, t in b.calls() if callee_path(t) == 'alloc::vec::Vec::<T, A>::push']
        ok = len(pushes) == 1
        if ok:
            # the pushed definition's id = DatumId::from(self.data.len()), len read before the push
            ids = [t for bb, t in b.calls() if (callee_path(t, resolved=False) or '').endswith('From::from') or 'into' in (callee_path(t, resolved=False) or '')]
            lens = [(bb, t) for bb, t in b.calls() if callee_path(t) == 'alloc::vec::Vec::<T, A>::len']
            dom = b.dominators(unwind=False)
            ok = len(lens) == 1 and lens[0][0] in dom[pushes[0][0]] and len(ids) >= 1
            if ok:
                src = trace_value(b, defs, ids[0]['args'][0])[-1]
                ok = src[0] == 'call' and callee_path(src[1]) == 'alloc::vec::Vec::<T, A>::len'
                ret = trace_value(b, defs, {'copy': {'l': 0, 'p': [], 'ty': None}})[-1]
                ok = ok and ret[0] == 'call' and ret[1] is ids[0]
        if not ok:
            ctx.add(['C12', 'C03'], 'B-APPEND', DDC + 'push', 'DatumDefinitionCollection::push does not append with id = previous length', key='push')
        else:
            ctx.inst('B-APPEND', 'push: id = DatumId::from(data.len()) read before Vec::push; that id is returned')
    else:
        ctx.add(['C12', 'C03'], 'B-APPEND', DDC + 'push', 'function not found (anchor lost)', key='anchor')
    # other mutable uses of DatumDefinitionCollection.data anywhere
    COLL = T + 'DatumDefinitionCollection'
    for x in crate.bodies:
        for bb, si, st in x.statements():
            if st['k'] == 'assign' and st['rv']['k'] in ('ref', 'rawptr') and (st['rv'].get('bk') == 'mut' or st['rv'].get('mut')):
                if any(isinstance(e, dict) and e.get('adt') == COLL and e.get('name') == 'data' for e in st['rv']['place']['p']):
                    if x.path in (DDC + 'push', DDC + 'get_mut'):
                        ctx.inst('B-APPEND', '%s borrows the collection\'s vector mutably' % x.path.split('::')[-1])
                    else:
                        ctx.add(['C12', 'C03'], 'B-APPEND', x.key, 'the datum collection\'s vector is borrowed mutably at %s outside push/get_mut (ids could be reused or definitions dropped)' % fmt_span(st.get('span')), key='%s|mut' % x.key)
            if st['k'] == 'assign' and any(isinstance(e, dict) and e.get('adt') == COLL and e.get('name') == 'data' for e in st['place']['p']) and x.path != '<' + COLL + '<D> as core::default::Default>::default':
                ctx.add(['C12', 'C03'], 'B-APPEND', x.key, 'the datum collection\'s vector is overwritten at %s' % fmt_span(st.get('span')), key='%s|assign' % x.key)
    ctx.floor(['C12'], 'B-APPEND', 3)

    # B-DELEG: the native builder only delegates
    for name in ('remove_datum', 'close_record_variant_with', 'build', 'get_current_data', 'get_current_datum_definition_by_name', 'get_variant_datum_definition_by_name'):
        b = crate.body(NB + name)
        if b is None:
            ctx.add(['C12'], 'B-DELEG', NB + name, 'function not found (anchor lost)', key='anchor|%s' % name)
            continue
        calls = [t for bb, t in b.calls() if not b.blocks[bb]['cleanup']]
        ok = len(calls) == 1 and callee_path(calls[0]) == GB + name
        if ok:
            for i, a in enumerate(calls[0]['args']):
                s = trace_value(b, local_defs(b), a)[-1]
                if i == 0:
                    ok = ok and ((s[0] == 'ref' and s[2]['l'] == 1 and [e.get('name') for e in s[2]['p'] if isinstance(e, dict) and 'name' in e] == ['inner']) or
                                 (s[0] == 'place' and s[1]['l'] == 1 and [e.get('name') for e in s[1]['p'] if isinstance(e, dict) and 'name' in e] == ['inner']))
                else:
                    ok = ok and s == ('param', i + 1)
        if not ok:
            ctx.add(['C12'], 'B-DELEG', b.key, 'NativeRecordDefinitionBuilder::%s is not a plain delegation to the generic builder' % name, key='deleg|%s' % name)
        else:
            ctx.inst('B-DELEG', '%s delegates to the generic builder with its arguments passed through' % name)
    # the add_* entry points call inner.add_datum exactly once with the caller's name
    for name in ('add_datum', 'add_datum_allow_uninit', 'add_datum_override', 'add_dynamic_datum', 'copy_datum'):
        b = crate.body(NB + name)
        if b is None:
            ctx.add(['C12'], 'B-DELEG', NB + name, 'function not found (anchor lost)', key='anchor|%s' % name)
            continue
        calls = [t for bb, t in b.calls() if callee_path(t) == GB + 'add_datum']
        if len(calls) != 1:
            ctx.add(['C12'], 'B-DELEG', b.key, '%s calls the generic add_datum %d times' % (name, len(calls)), key='deleg|%s' % name)
        else:
            ctx.inst('B-DELEG', '%s -> inner.add_datum once' % name)
    ctx.floor(['C12'], 'B-DELEG', 11)


# -- C20: replaying a definition ----------------------------------------------

def sources(b, defs, op, depth=0, seen=None, sel=None, selmap=None):
    """All terminal sources of an operand, following moves, several definitions and
    tuple-field projections of locally built tuples. Returns a list of terminals as in trace_value.
    With `selmap` (a dict), records for each terminal (by identity of its payload) the blocks of the
    outermost definition that *selected* it among alternatives (its own block when there was no choice)."""
    seen = seen if seen is not None else set()
    out = []
    st = trace_value(b, defs, op)
    t = st[-1]

    def note(term, sel_):
        if selmap is not None and len(term) > 1 and isinstance(term[1], (dict, list)):
            if sel_ is None and term[0] == 'call':
                own = [bb_ for bb_, blk_ in enumerate(b.blocks) if blk_['term'] is term[1]]
                sel_ = own[0] if own else None
            selmap.setdefault(id(term[1]), set()).add(sel_)
        return term
    if depth > 10:
        return [note(t, sel)]
    if t[0] == 'multi':
        l = t[1]
        if l in seen:
            return []
        seen.add(l)
        if not defs.get(l):
            return [note(t, sel)]      # (a local the caller asked not to look through)
        live = [d for d in defs.get(l, []) if not b.blocks[d[1]]['cleanup']]
        for d in defs.get(l, []):
            s2 = sel if sel is not None else (d[1] if len(live) > 1 else None)
            if d[0] == 'call':
                out.append(note(('call', d[2]), s2))
            else:
                rv = d[3]['rv']
                if rv['k'] == 'use':
                    out += sources(b, defs, rv['op'], depth + 1, seen, s2, selmap)
                else:
                    out.append(note(('rv', rv), s2))
        return out
    if t[0] == 'place':
        pl = t[1]
        if len(pl['p']) == 1 and isinstance(pl['p'][0], dict) and 'f' in pl['p'][0] and pl['p'][0].get('tuple'):
            k = pl['p'][0]['f']
            live = [d for d in defs.get(pl['l'], []) if not (d[0] == 'stmt' and b.blocks[d[1]]['cleanup'])]
            for d in defs.get(pl['l'], []):
                if d[0] == 'stmt' and b.blocks[d[1]]['cleanup']:
                    continue
                s2 = sel if sel is not None else (d[1] if len(live) > 1 else None)
                if d[0] == 'stmt' and d[3]['rv']['k'] == 'aggregate' and d[3]['rv']['ak'] == 'tuple':
                    out += sources(b, defs, d[3]['rv']['fields'][k], depth + 1, seen, s2, selmap)
                elif d[0] == 'stmt' and d[3]['rv']['k'] == 'use' and op_local(d[3]['rv']['op']) is not None:
                    # the tuple was built elsewhere and moved here
                    out += sources(b, defs, {'copy': {'l': op_local(d[3]['rv']['op']), 'p': pl['p'], 'ty': None}}, depth + 1, seen, s2, selmap)
                else:
                    out.append(note(('opaque-tuple', pl), s2))
            return out
    return [note(t, sel)]


def truc_rule_replay(ctx, crate):
    path = T + 'convert::convert_record_definition'
    b = crate.body(path)
    if b is None:
        ctx.add(['C20'], 'V-ORDER', path, 'function not found (anchor lost)', key='anchor')
        return
    defs = local_defs(b)
    ROLE = {2: 'add', 3: 'remove', 4: 'close'}
    cb = {'add': [], 'remove': [], 'close': []}
    for bb, t in b.calls():
        d = callee_path(t, resolved=False) or ''
        if d.startswith('core::ops::function::Fn') and t['args']:
            r = trace_value(b, defs, t['args'][0])[-1]
            if r[0] == 'ref' and not r[2]['p'] and r[2]['l'] in ROLE:
                cb[ROLE[r[2]['l']]].append((bb, t))
    if len(cb['add']) != 1 or len(cb['remove']) != 1 or len(cb['close']) != 1:
        ctx.add(['C20'], 'V-ORDER', b.key, 'expected one call site each of the add / remove / close callbacks, found %s' % {k: len(v) for k, v in cb.items()}, key='sites')
        return
    (bb_add, t_add), (bb_rm, t_rm), (bb_close, t_close) = cb['add'][0], cb['remove'][0], cb['close'][0]
    # the outer loop head: `next` on the iterator over quirky_definition.variants()
    head = None
    for bb, t in b.calls():
        if (callee_path(t) or '').endswith('Iterator>::next'):
            tys = callee_ty_args(t, resolved=False)
            if tys and 'RecordVariant' in tys[0]:
                head = bb
    if head is None:
        ctx.add(['C20'], 'V-ORDER', b.key, 'cannot find the loop over the source variants', key='loop')
        return

    def reach_wo(start, *without):
        return b.reachable(start, unwind=False, removed_blocks=list(without))
    # within one iteration: remove* -> add* -> close -> variants_mapping.insert
    after_add = reach_wo(bb_add, head)
    after_close = reach_wo(bb_close, head)
    if bb_rm in after_add:
        ctx.add(['C20'], 'V-ORDER', fmt_span(t_rm['span']), 'a removal can be replayed after an addition of the same variant (a re-used name would be rejected, or the wrong datum removed)', key='rm-after-add')
    if bb_rm in after_close or bb_add in after_close:
        ctx.add(['C20'], 'V-ORDER', fmt_span(t_close['span']), 'additions / removals can be replayed after the variant was closed', key='after-close')
    # close is on every path of an iteration that comes back to the head
    some_edge = None
    for v, tgt in b.blocks[b.blocks[head]['term']['t']]['term'].get('targets', []) if b.blocks[head]['term']['t'] is not None else []:
        if v == 1:
            some_edge = tgt
    if some_edge is None:
        ctx.add(['C20'], 'V-ORDER', b.key, 'cannot find the `Some(variant)` edge of the loop', key='some-edge')
        return
    if head in reach_wo(some_edge, bb_close):
        ctx.add(['C20'], 'V-ORDER', b.key, 'an iteration over a source variant can complete without closing a target variant', key='close-skipped')
    # exactly once: the close block cannot reach itself without passing the head
    succ = b.blocks[bb_close]['term']['t']
    if succ is not None and bb_close in reach_wo(succ, head):
        ctx.add(['C20'], 'V-ORDER', b.key, 'the close callback can run twice for one source variant', key='close-twice')
    ctx.inst('V-ORDER', 'per source variant: remove (bb%d) before add (bb%d) before exactly one close (bb%d)' % (bb_rm, bb_add, bb_close))

    # V-MAP
    ins_d = [(bb, t) for bb, t in b.calls() if (callee_path(t) or '').endswith('BTreeMap::<K, V, A>::insert') and callee_ty_args(t)[:1] == [T + 'DatumId']]
    ins_v = [(bb, t) for bb, t in b.calls() if (callee_path(t) or '').endswith('BTreeMap::<K, V, A>::insert') and callee_ty_args(t)[:1] == [T + 'RecordVariantId']]
    # removed id goes through the id map
    tup = trace_value(b, defs, t_rm['args'][1])[-1]
    ok = tup[0] == 'rv' and tup[1].get('ak') == 'tuple' and len(tup[1]['fields']) == 2
    rm_src = None
    if ok:
        # the id must come out of a lookup in the source->target id map (map[&d], map.get(&d)…),
        # possibly through deref / copied / cloned / unwrap / expect
        cur = tup[1]['fields'][1]
        for _ in range(10):
            s = trace_value(b, defs, cur)[-1]
            if s[0] == 'place' and s[1]['p'] == ['deref']:
                cur = {'copy': {'l': s[1]['l'], 'p': [], 'ty': None}}
                continue
            if s[0] == 'call':
                cp = callee_path(s[1], resolved=False) or ''
                rp = callee_path(s[1]) or ''
                tys = callee_ty_args(s[1], resolved=False) or ['']
                if (cp.endswith('Index::index') and 'BTreeMap<' in tys[0]) or rp.endswith('BTreeMap::<K, V, A>::get'):
                    recv = trace_value(b, defs, s[1]['args'][0])[-1]
                    rm_src = s[1]
                    break
                if any(rp.endswith(x) for x in ('::unwrap', '::expect', '::copied', '::cloned', '::unwrap_or_else')) or cp in ('core::clone::Clone::clone', 'core::ops::deref::Deref::deref'):
                    cur = s[1]['args'][0]
                    continue
            break
    if rm_src is None:
        ctx.add(['C20'], 'V-MAP', fmt_span(t_rm['span']), 'the id handed to the remove callback is not looked up in the source-to-target id map (a source id is used as a target id)', key='rm-unmapped')
    else:
        ctx.inst('V-MAP', 'remove(ctx, datum_ids_mapping[&d])')
    # add: datum = &quirky_definition[d]; then datum_ids_mapping.insert(d, returned id)
    tup = trace_value(b, defs, t_add['args'][1])[-1]
    d_local = None
    if tup[0] == 'rv' and tup[1].get('ak') == 'tuple' and len(tup[1]['fields']) == 2:
        s = trace_value(b, defs, tup[1]['fields'][1])[-1]
        if s[0] == 'call' and (callee_path(s[1], resolved=False) or '').endswith('Index::index'):
            base = trace_value(b, defs, s[1]['args'][0])[-1]
            if base[0] == 'param' and base[1] == 1:
                dsrc = trace_value(b, defs, s[1]['args'][1])
                d_local = op_local(s[1]['args'][1])
                dd = single_def(defs, d_local) if d_local is not None else None
                if dd and dd[0] == 'stmt' and dd[3]['rv']['k'] == 'use' and op_local(dd[3]['rv']['op']) is not None:
                    d_local = op_local(dd[3]['rv']['op'])
    if d_local is None:
        ctx.add(['C20'], 'V-MAP', fmt_span(t_add['span']), 'the add callback is not handed `&quirky_definition[d]`', key='add-datum')
    else:
        ctx.inst('V-MAP', 'add(ctx, &quirky_definition[d])')
        ok = False
        if len(ins_d) == 1:
            k_l = op_local(ins_d[0][1]['args'][1])
            kd = single_def(defs, k_l) if k_l is not None else None
            k_src = op_local(kd[3]['rv']['op']) if kd and kd[0] == 'stmt' and kd[3]['rv']['k'] == 'use' else k_l
            v = trace_value(b, defs, ins_d[0][1]['args'][2])[-1]
            v_ok = False
            if v[0] == 'place' and any(isinstance(e, dict) and e.get('name') == 'Continue' for e in v[1]['p']):
                br = trace_value(b, defs, {'copy': {'l': v[1]['l'], 'p': [], 'ty': None}})[-1]
                if br[0] == 'call' and (callee_path(br[1]) or '').endswith('Try>::branch'):
                    src = trace_value(b, defs, br[1]['args'][0])[-1]
                    v_ok = src[0] == 'call' and src[1] is t_add
            ok = (k_src == d_local) and v_ok and bb_add in b.dominators(unwind=False).get(ins_d[0][0], set())
        if not ok:
            ctx.add(['C20'], 'V-MAP', b.key, 'after an addition the id map is not updated with (source id of the added datum -> id returned by the add callback)', key='add-map')
        else:
            ctx.inst('V-MAP', 'datum_ids_mapping.insert(d, id returned by add)')
    ok = False
    if len(ins_v) == 1:
        k = trace_value(b, defs, ins_v[0][1]['args'][1])[-1]
        v = trace_value(b, defs, ins_v[0][1]['args'][2])[-1]
        item = None
        # the loop item: (_16 as Some).0 of the variants iterator's next
        if k[0] == 'call' and callee_path(k[1]) == T + 'RecordVariant::id':
            it = trace_value(b, defs, k[1]['args'][0])[-1]
            if it[0] == 'place' and any(isinstance(e, dict) and e.get('name') == 'Some' for e in it[1]['p']):
                nx = trace_value(b, defs, {'copy': {'l': it[1]['l'], 'p': [], 'ty': None}})[-1]
                item = nx[0] == 'call' and b.blocks[head]['term'] is nx[1]
        ok = bool(item) and v[0] == 'call' and v[1] is t_close and bb_close in b.dominators(unwind=False).get(ins_v[0][0], set())
    if not ok:
        ctx.add(['C20'], 'V-MAP', b.key, 'the variant map does not receive (id of the source variant -> id returned by the close callback) once per source variant', key='variant-map')
    else:
        ctx.inst('V-MAP', 'variants_mapping.insert(variant.id(), id returned by close)')
    # the function returns Ok(the variant map that received those inserts)
    ret_ok = False
    if len(ins_v) == 1:
        mref = trace_value(b, defs, ins_v[0][1]['args'][0])[-1]
        mlocal = mref[2]['l'] if mref[0] == 'ref' and not mref[2]['p'] else None
        for bb, si, st in b.statements():
            if st['k'] == 'assign' and st['place']['l'] == 0 and not st['place']['p'] and st['rv']['k'] == 'aggregate' and st['rv'].get('variant') == 'Ok':
                src = trace_value(b, defs, st['rv']['fields'][0])[-1]
                if (src[0] == 'multi' and src[1] == mlocal) or (src[0] == 'call' and src[1]['dest']['l'] == mlocal):
                    ret_ok = True
                else:
                    l0 = op_local(st['rv']['fields'][0])
                    d0 = single_def(defs, l0) if l0 is not None else None
                    if d0 and d0[0] == 'stmt' and d0[3]['rv']['k'] == 'use' and op_local(d0[3]['rv']['op']) == mlocal:
                        ret_ok = True
    if not ret_ok:
        ctx.add(['C20'], 'V-MAP', b.key, 'the map returned on success is not the one that received (source variant id -> target variant id)', key='returned-map')
    else:
        ctx.inst('V-MAP', 'returns Ok(variants_mapping)')
    # V-DELTA: what is added / removed per variant
    carried = {}      # local -> True when it is a vector carried from one iteration to the next

    def is_variants_of_source(op):
        s_ = trace_value(b, defs, op)[-1]
        if s_[0] == 'call' and callee_path(s_[1]) == T + 'RecordDefinition::<D>::variants':
            return trace_value(b, defs, s_[1]['args'][0])[-1] == ('param', 1)
        return False

    def zip_of_previous_and_current():
        """the loop iterates `once(None).chain(variants().map(Some)).zip(variants())`: each variant with its predecessor"""
        ht = b.blocks[head]['term']
        it = trace_value(b, defs, ht['args'][0])[-1]
        if it[0] == 'ref' and not it[2]['p']:
            for s_ in sources(b, defs, {'copy': it[2]}):
                if s_[0] == 'call' and 'into_iter' in (callee_path(s_[1]) or ''):
                    z = trace_value(b, defs, s_[1]['args'][0])[-1]
                    if z[0] == 'call' and (callee_path(z[1], resolved=False) or '').endswith('Iterator::zip') and is_variants_of_source(z[1]['args'][1]):
                        ch = trace_value(b, defs, z[1]['args'][0])[-1]
                        if ch[0] == 'call' and (callee_path(ch[1], resolved=False) or '').endswith('Iterator::chain'):
                            on = trace_value(b, defs, ch[1]['args'][0])[-1]
                            mp = trace_value(b, defs, ch[1]['args'][1])[-1]
                            once_none = False
                            if on[0] == 'call' and (callee_path(on[1]) or '').endswith('once::once'):
                                a0 = trace_value(b, defs, on[1]['args'][0])[-1]
                                once_none = a0[0] == 'rv' and a0[1]['k'] == 'aggregate' and a0[1].get('variant') == 'None'
                            map_some = False
                            if mp[0] == 'call' and (callee_path(mp[1], resolved=False) or '').endswith('Iterator::map') and is_variants_of_source(mp[1]['args'][0]):
                                f = trace_value(b, defs, mp[1]['args'][1])[-1]
                                map_some = f[0] == 'const' and 'Option' in str(f[1].get('fn') or f[1].get('dbg') or '') and 'Some' in str(f[1].get('fn') or f[1].get('dbg') or '')
                            return once_none and map_some
        return False
    zipped = zip_of_previous_and_current()

    def data_of(op, depth=0):
        """collect(RecordVariant::data(x)) -> 'cur' | 'prev' | None"""
        s = trace_value(b, defs, op)[-1]
        if s[0] == 'ref' and not s[2]['p']:
            s = trace_value(b, defs, {'copy': s[2]})[-1]
        if s[0] == 'call' and (callee_path(s[1]) or '').endswith('Deref>::deref') and depth < 4:
            return data_of(s[1]['args'][0], depth + 1)
        if s[0] == 'multi' and depth < 4:
            # `let mut old = Vec::new(); loop { …; old = new; }`: empty before the first variant, then
            # the data of the variant just replayed
            l = s[1]
            empties, moves, other = [], [], []
            for d in defs.get(l, []):
                if b.blocks[d[1]]['cleanup']:
                    continue      # the replacement half of a drop-and-replace on the unwind path
                if d[0] == 'call' and (callee_path(d[2]) or '').startswith('alloc::vec::Vec::<T>::new'):
                    empties.append(d[1])
                elif d[0] == 'stmt' and d[3]['rv']['k'] == 'use' and 'move' in d[3]['rv']['op'] and data_of(d[3]['rv']['op'], depth + 1) == 'cur':
                    moves.append(d[1])
                else:
                    other.append(d)
            in_loop = b.reachable(head, unwind=False)
            if len(empties) == 1 and len(moves) >= 1 and not other and empties[0] not in in_loop and all(m in after_close for m in moves):
                # every way back to the head after the close passes through the hand-over
                if head not in b.reachable(b.blocks[bb_close]['term']['t'], unwind=False, removed_blocks=moves):
                    carried[l] = True
                    return 'prev'
            return None
        dt = None
        if s[0] == 'call' and (callee_path(s[1], resolved=False) or '').endswith('Iterator::collect'):
            dt = trace_value(b, defs, s[1]['args'][0])[-1]
        elif s[0] == 'call' and callee_path(s[1]) == T + 'RecordVariant::data':
            dt = s        # the iterator over a variant's data, not collected
        if dt is not None:
            if dt[0] == 'call' and callee_path(dt[1]) == T + 'RecordVariant::data':
                x = trace_value(b, defs, dt[1]['args'][0])[-1]
                if zipped and x[0] == 'place':
                    # loop item = (previous variant if any, variant): follow the projections back to the item
                    fields = []
                    cur_ = x
                    for _ in range(6):
                        if cur_[0] != 'place':
                            break
                        fields = [e['f'] for e in cur_[1]['p'] if isinstance(e, dict) and 'f' in e] + fields
                        nx = trace_value(b, defs, {'copy': {'l': cur_[1]['l'], 'p': [], 'ty': None}})[-1]
                        if nx[0] == 'call' and b.blocks[head]['term'] is nx[1]:
                            # (_item as Some).0 = the pair; .1 = current, .0 = Option of the previous one, its .0 the variant
                            if fields == [0, 1]:
                                return 'cur'
                            if fields == [0, 0, 0]:
                                return 'prev'
                            return None
                        cur_ = nx
                    return None
                if x[0] == 'place' and any(isinstance(e, dict) and e.get('name') == 'Some' for e in x[1]['p']):
                    nx = trace_value(b, defs, {'copy': {'l': x[1]['l'], 'p': [], 'ty': None}})
                    if nx[-1][0] == 'call' and b.blocks[head]['term'] is nx[-1][1]:
                        return 'cur'
                    return 'prev'
        return None

    retained = {}     # local -> (base, against)
    closures = {c.path: c for c in crate.closures_of(path)}
    for bb, t in b.calls():
        if callee_path(t) == 'alloc::vec::Vec::<T, A>::retain':
            recv = trace_value(b, defs, t['args'][0])[-1]
            cl = trace_value(b, defs, t['args'][1])[-1]
            if recv[0] != 'ref' or recv[2]['p'] or cl[0] != 'rv' or cl[1].get('ak') != 'closure':
                continue
            l = recv[2]['l']
            base = None
            for d in defs.get(l, []):
                if d[0] == 'call' and callee_path(d[2], resolved=False) == 'core::clone::Clone::clone':
                    base = data_of(d[2]['args'][0])
                elif d[0] == 'stmt' and d[3]['rv']['k'] == 'use' and not b.blocks[d[1]]['cleanup']:
                    base = data_of(d[3]['rv']['op'])      # the vector itself, moved (it is not needed any more)
            against = data_of(cl[1]['fields'][0]) if cl[1]['fields'] else None
            # closure body: !contains(captured, d)
            cbody = closures.get(cl[1]['closure'])
            neg = False
            if cbody is not None:
                cd = local_defs(cbody)
                r = trace_value(cbody, cd, {'copy': {'l': 0, 'p': [], 'ty': None}})[-1]
                if r[0] == 'rv' and r[1]['k'] == 'un' and r[1]['op'] == 'Not':
                    inner = trace_value(cbody, cd, r[1]['o'])[-1]
                    neg = inner[0] == 'call' and (callee_path(inner[1]) or '').endswith('::contains')
            retained[l] = (base, against, neg)
    def closure_negated_contains(cl_rv):
        cbody = closures.get(cl_rv['closure'])
        if cbody is None:
            return False
        cd = local_defs(cbody)
        r = trace_value(cbody, cd, {'copy': {'l': 0, 'p': [], 'ty': None}})[-1]
        if r[0] == 'rv' and r[1]['k'] == 'un' and r[1]['op'] == 'Not':
            inner = trace_value(cbody, cd, r[1]['o'])[-1]
            return inner[0] == 'call' and (callee_path(inner[1]) or '').endswith('::contains')
        return False

    def filtered_collect(call, start=None):
        """collect(<iter over X>.filter(|d| !Y.contains(d))) -> (label X, label Y, negated) or None"""
        cur = call['args'][0] if start is None else start
        against = neg = None
        for _ in range(10):
            s = trace_value(b, defs, cur)[-1]
            if s[0] != 'call':
                break
            cp = callee_path(s[1]) or ''
            dp = callee_path(s[1], resolved=False) or ''
            if dp.endswith('Iterator::filter'):
                cl = trace_value(b, defs, s[1]['args'][1])[-1]
                if cl[0] == 'rv' and cl[1].get('ak') == 'closure':
                    against = data_of(cl[1]['fields'][0]) if cl[1]['fields'] else None
                    neg = closure_negated_contains(cl[1])
                cur = s[1]['args'][0]
                continue
            if dp.endswith('Iterator::copied') or dp.endswith('Iterator::cloned') or dp.endswith('IntoIterator::into_iter') or cp.endswith('::iter'):
                cur = s[1]['args'][0]
                continue
            if cp.endswith('Deref>::deref'):
                cur = s[1]['args'][0]
                continue
            break
        if against is None:
            return None
        base = data_of(cur)
        return (base, against, neg)

    first_only = []      # (what, [block]) of the alternatives meant for the first variant only

    def kind_of(op):
        outs = set()
        # a vector that was moved under another name and then filtered in place under that name
        l = op_local(op)
        for _ in range(6):
            if l is None:
                break
            if l in retained:
                return {retained[l]}
            ds = [d for d in defs.get(l, []) if not b.blocks[d[1]]['cleanup']]
            if len(ds) == 1 and ds[0][0] == 'stmt' and ds[0][3]['rv']['k'] == 'use':
                l = op_local(ds[0][3]['rv']['op'])
            else:
                break
        defs_stop = dict(defs)
        for rl in retained:
            defs_stop[rl] = []
        selmap = {}
        for s in sources(b, defs_stop, op, selmap=selmap):
            if s[0] == 'multi' and s[1] in retained:
                outs.add(retained[s[1]])
            elif s[0] == 'call' and not s[1]['dest']['p'] and s[1]['dest']['l'] in retained:
                outs.add(retained[s[1]['dest']['l']])
            elif s[0] == 'call' and (callee_path(s[1], resolved=False) or '').endswith('Iterator::collect'):
                fc = filtered_collect(s[1])
                if fc is not None:
                    outs.add(fc)
                else:
                    outs.add(('all', data_of({'copy': {'l': s[1]['dest']['l'], 'p': [], 'ty': None}})))
                    first_only.append(('everything', sorted(x for x in selmap.get(id(s[1]), ()) if x is not None)))
            elif s[0] == 'call' and (callee_path(s[1]) or '').startswith('alloc::vec::Vec::<T>::new'):
                outs.add(('empty',))
                first_only.append(('nothing', sorted(x for x in selmap.get(id(s[1]), ()) if x is not None)))
            elif s[0] == 'call' and (callee_path(s[1], resolved=False) or '').endswith('Iterator::filter'):
                # a lazily filtered iterator handed to the loop as it is
                fc = filtered_collect(s[1], start={'move': {'l': s[1]['dest']['l'], 'p': [], 'ty': None}})
                outs.add(fc if fc is not None else ('?', 'filter'))
            else:
                outs.add(('?', str(s[0])))
        return outs

    def loop_collection(t_cb):
        """the collection iterated by the loop containing the callback: into_iter arg of the next() that dominates it"""
        dom = b.dominators(unwind=False).get([bb for bb, t in b.calls() if t is t_cb][0], set())
        best = None
        for bb, t in b.calls():
            if bb in dom and (callee_path(t) or '').endswith('Iterator>::next') and bb != head:
                best = t
        if best is None:
            return None
        it = trace_value(b, defs, best['args'][0])[-1]
        if it[0] == 'ref' and not it[2]['p']:
            srcs = sources(b, defs, {'copy': it[2]})
            for s in srcs:
                if s[0] == 'call' and 'into_iter' in (callee_path(s[1]) or ''):
                    return s[1]['args'][0]
        return None
    add_coll, rm_coll = loop_collection(t_add), loop_collection(t_rm)
    want_add = {('cur', 'prev', True), ('all', 'cur')}
    want_rm = {('prev', 'cur', True), ('empty',)}
    got_add = kind_of(add_coll) if add_coll else {('?',)}
    got_rm = kind_of(rm_coll) if rm_coll else {('?',)}
    if carried:
        # with a carried vector that starts empty, "everything for the first variant" and "nothing
        # removed for the first variant" are instances of the general case
        want_add = {('cur', 'prev', True)}
        want_rm = {('prev', 'cur', True)}
    if got_add != want_add:
        ctx.add(['C20'], 'V-DELTA', b.key, 'the data replayed as additions are %s; expected (current variant minus previous variant) or, for the first variant, all of it' % sorted(map(str, got_add)), key='delta-add')
    else:
        ctx.inst('V-DELTA', 'additions = new \\ old (first variant: everything)')
    if got_rm != want_rm:
        ctx.add(['C20'], 'V-DELTA', b.key, 'the data replayed as removals are %s; expected (previous variant minus current variant) or nothing for the first variant' % sorted(map(str, got_rm)), key='delta-rm')
    else:
        ctx.inst('V-DELTA', 'removals = old \\ new (first variant: none)')
    # "everything" / "nothing" are for the first variant only: the blocks that produce them are reached only
    # through an edge that learnt there is no previous variant
    if not carried and first_only:
        none_edges = []
        for sb in range(len(b.blocks)):
            tm = b.blocks[sb]['term']
            if tm['k'] != 'switch':
                continue
            si = switch_info(b, defs, sb)
            if not si:
                continue
            if si[0] == 'discr':
                pl = si[1][1] if si[1][0] == 'place' else None
                dsrc = trace_value(b, defs, tm['d'])[-1]
                dty = (dsrc[1]['place'].get('ty') or '') if dsrc[0] == 'rv' and dsrc[1]['k'] == 'discr' else ''
                if not dty and dsrc[0] == 'rv' and dsrc[1]['k'] == 'discr' and not dsrc[1]['place']['p']:
                    dty = b.local_ty(dsrc[1]['place']['l']) or ''
                if 'Option<' in dty and 'RecordVariant' in dty:
                    tg = dict(tm['targets'])
                    none_edges.append((sb, tg[0] if 0 in tg else tm['otherwise']))
            elif si[0] == 'val' and si[1][0] == 'call' and callee_path(si[1][1]) in ('core::option::Option::<T>::is_none', 'core::option::Option::<T>::is_some'):
                a0 = op_place(si[1][1]['args'][0])
                aty = ''
                r0 = trace_value(b, defs, si[1][1]['args'][0])[-1]
                if r0[0] == 'ref':
                    aty = r0[2].get('ty') or (b.local_ty(r0[2]['l']) if not r0[2]['p'] else '') or ''
                if 'Option<' in aty and 'RecordVariant' in aty:
                    none_truth = callee_path(si[1][1]).endswith('is_none') != si[2]
                    none_edges.append((sb, edge_for(b, sb, none_truth)))
        reach_some = b.reachable(head, unwind=False, removed_edges=none_edges)
        bad = [(w, bbs) for w, bbs in first_only if any(x in reach_some for x in bbs)]
        if bad:
            ctx.add(['C20'], 'V-DELTA', b.key, 'replaying %s of a variant\'s data (bb%s) is not restricted to the first variant: it can be reached although a previous variant exists, so that variant\'s removals / the data it kept are mishandled' % (
                ' / '.join(sorted({w for w, _ in bad})), ','.join(str(x) for _, bbs in bad for x in bbs)), key='delta-first-only')
        else:
            ctx.inst('V-DELTA', '"everything added / nothing removed" only on the no-previous-variant edge (%d edges, %d sites)' % (len(none_edges), len(first_only)))
    # prev_variant is updated to the loop item at the end of each iteration
    prev_ok = False
    for bb, si, st in b.statements():
        if st['k'] == 'assign' and st['rv']['k'] == 'aggregate' and st['rv'].get('adt') == 'core::option::Option' and st['rv'].get('variant') == 'Some' and 'RecordVariant' in (st['place'].get('ty') or ''):
            if bb in after_close:
                prev_ok = True
    if carried and not prev_ok:
        prev_ok = True      # established by data_of: the hand-over `old = new` is on every way back to the head
    if zipped and not prev_ok:
        prev_ok = True      # the iterator pairs every variant with its predecessor
    if not prev_ok:
        ctx.add(['C20'], 'V-DELTA', b.key, 'the previous-variant reference is not advanced after closing', key='prev-advance')
    else:
        ctx.inst('V-DELTA', 'prev_variant = Some(variant) after close')
    # V-ERR: callback errors are propagated: each add/remove result goes through `?` (Try::branch) whose Break edge returns
    for role, (bbx, tx) in (('add', cb['add'][0]), ('remove', cb['remove'][0])):
        used = False
        for bb, t in b.calls():
            if (callee_path(t) or '').endswith('Try>::branch'):
                s = trace_value(b, defs, t['args'][0])[-1]
                if s[0] == 'call' and s[1] is tx:
                    used = True
        if not used:
            ctx.add(['C20'], 'V-ERR', fmt_span(tx['span']), 'the result of the %s callback is not propagated with `?`: a rejected request is ignored and the target silently diverges from the source' % role, key='err-%s' % role)
        else:
            ctx.inst('V-ERR', '%s callback result propagated with ?' % role)
    ctx.floor(['C20'], 'V-ORDER', 1)
    ctx.floor(['C20'], 'V-MAP', 4)
    ctx.floor(['C20'], 'V-DELTA', 3)
    ctx.floor(['C20'], 'V-ERR', 2)


def fields_touched(crate, b, seen=None, depth=0):
    """Names of `self` fields (of the generic builder) borrowed or read in a body, its closures
    and the builder methods it calls on self."""
    seen = seen if seen is not None else set()
    if b.key in seen or depth > 4:
        return set()
    seen.add(b.key)
    out = set()
    ADT = T + 'builder::generic::GenericRecordDefinitionBuilder'
    def scan_place(pl):
        for e in pl['p']:
            if isinstance(e, dict) and 'name' in e and (e.get('adt') == ADT or (e.get('adt') or '').startswith(T + 'builder::generic::')):
                out.add(e['name'])
    for x in [b] + crate.closures_of(b.path):
        for _, _, st in x.statements():
            if st['k'] != 'assign':
                continue
            rv = st['rv']
            if 'place' in rv:
                scan_place(rv['place'])
            for k in ('op', 'l', 'r', 'o'):
                if k in rv and op_place(rv[k]):
                    scan_place(op_place(rv[k]))
        for bb, t in x.calls():
            p = callee_path(t) or ''
            if p.startswith(GB) and p != b.path:
                cb = crate.lookup(p)
                if cb is not None:
                    out |= fields_touched(crate, cb, seen, depth + 1)
    return out


def truc_rule_current(ctx, crate):
    """B-CURRENT (C12): the duplicate-name lookup looks at carried-over data minus pending removals
    plus pending additions, and cannot answer "absent" before the pending additions were consulted."""
    for name, need in (('get_current_datum_definition_by_name', {'variants', 'data_to_remove', 'data_to_add', 'datum_definitions'}),
                       ('get_current_data', {'variants', 'data_to_remove', 'data_to_add'}),
                       ('has_pending_changes', {'variants', 'data_to_remove', 'data_to_add'})):
        b = crate.body(GB + name)
        if b is None:
            ctx.add(['C12'], 'B-CURRENT', GB + name, 'function not found (anchor lost)', key='anchor|%s' % name)
            continue
        got = fields_touched(crate, b)
        if not need <= got:
            ctx.add(['C12'], 'B-CURRENT', b.key, '%s does not consult %s (it reads %s): the current variant is "previous minus pending removals plus pending additions"' % (name, sorted(need - got), sorted(got)), key='%s|fields' % name)
        else:
            ctx.inst('B-CURRENT', '%s consults %s' % (name, sorted(need)))
        if name == 'has_pending_changes':
            continue
        # explicit "absent" answers: `_0 = None` must come after the pending additions were looked at
        group = [b] + crate.closures_of(b.path)
        for x in group:
            if x is not b:
                continue
            dom = x.dominators(unwind=False)
            add_blocks = set()
            for bb, blk in enumerate(x.blocks):
                for st in blk['stmts']:
                    if st['k'] == 'assign' and 'place' in st['rv'] and any(isinstance(e, dict) and e.get('name') == 'data_to_add' for e in st['rv']['place']['p']):
                        add_blocks.add(bb)
                t = blk['term']
                if t['k'] == 'call' and callee_path(t) == GB + 'get_current_data':
                    add_blocks.add(bb)
            if name == 'get_current_data':
                # the pending additions are part of the current data whether or not a variant was closed yet:
                # they are consulted by the function's own body on every path to its return (an access that
                # only exists inside a closure handed to a combinator over `variants.last()` is conditional);
                # a closure of the function that is called directly counts at its call site
                touching = set()
                for cl_ in crate.closures_of(x.path):
                    for _, _, s2 in cl_.statements():
                        if s2['k'] == 'assign' and 'place' in s2['rv'] and any(isinstance(e, dict) and e.get('name') == 'data_to_add' for e in s2['rv']['place']['p']):
                            touching.add(cl_.path)
                xdefs = local_defs(x)
                for bb2, tm2 in x.calls():
                    if (callee_path(tm2, resolved=False) or '').startswith('core::ops::function::Fn') and tm2['args']:
                        c0 = trace_value(x, xdefs, tm2['args'][0])[-1]
                        if c0[0] == 'ref':
                            c0 = trace_value(x, xdefs, {'copy': {'l': c0[2]['l'], 'p': [], 'ty': None}})[-1]
                        if c0[0] == 'rv' and c0[1].get('closure') in touching:
                            add_blocks.add(bb2)
                rets = [bb2 for bb2, blk2 in enumerate(x.blocks) if blk2['term']['k'] == 'return']
                if not rets or not all(dom.get(r_, set()) & add_blocks for r_ in rets):
                    ctx.add(['C12'], 'B-CURRENT', x.key, 'get_current_data does not consult the pending additions on every path of its own body (%s): while no variant is closed yet they are left out, so a name added twice before the first close is accepted' % ('only inside a closure' if touching and not add_blocks else 'not on every path'), key='get_current_data|additions-conditional')
                else:
                    ctx.inst('B-CURRENT', 'get_current_data chains the pending additions unconditionally')
            if name != 'get_current_datum_definition_by_name':
                continue
            # every definition of the result that is not an explicit `Some(..)` may mean "absent"
            sites = []
            for bb, si, st in x.statements():
                if st['k'] == 'assign' and st['place']['l'] == 0 and not st['place']['p']:
                    if st['rv']['k'] == 'aggregate' and st['rv'].get('adt') == 'core::option::Option' and st['rv'].get('variant') == 'Some':
                        continue
                    sites.append((bb, fmt_span(st.get('span'))))
            for bb, t in x.calls():
                if t['dest']['l'] == 0 and not t['dest']['p']:
                    sites.append((bb, fmt_span(t['span'])))
            for bb, where in sites:
                if not (dom.get(bb, set()) & add_blocks):
                    ctx.add(['C12'], 'B-CURRENT', x.key, '%s can answer (possibly "no such datum") at %s on a path that never consulted the pending additions: a name that was removed and added again is reported free' % (name, where), key='%s|early-answer' % name)
    # the bookkeeping lists are sets in request order, not sorted sequences: every element counts.  An
    # adaptor that stops at / skips to the first element failing a test, or keeps a prefix, drops data
    # that are still there (`take_while` where `filter` is meant)
    trunc = TRUNCATING
    n_scanned = 0
    for x in crate.bodies:
        mod = x.module or ''
        if not (mod == 'truc::record::definition::builder::generic' or x.path.startswith(GB)):
            continue
        n_scanned += 1
        for bb, tm in x.calls():
            dp = callee_decl_path(tm) or callee_path(tm) or ''
            m = trunc.search(dp)
            if m and 'Iterator' in dp:
                ctx.add(['C12', 'C13'], 'B-CURRENT', x.key, '`%s` at %s cuts the walk over the builder\'s bookkeeping short: data after the first element that fails the test (or beyond the prefix) are ignored although they are still part of the variant' % (m.group(1), fmt_span(tm['span'])), key='truncating|%s|%s' % (x.path, m.group(1)))
    ctx.inst('B-CURRENT', 'no truncating iterator adaptor in the %d bodies of the generic builder' % n_scanned)
    # the `*_while` adaptors are `filter` / `filter_map` lookalikes that stop at the first element failing
    # the test; nothing in truc walks a sorted or prefix-structured sequence, so they are denied crate-wide
    # (outside tests), attributed to the property of the module they appear in
    WHILE = re.compile(r'::(take_while|skip_while|map_while)$')
    MODPROPS = (('truc::record::type_name', ['C17']), ('truc::record::type_resolver', ['C17', 'C18']), ('truc::record::definition::convert', ['C20']),
                ('truc::record::definition::builder::native::variant', ['C02', 'C03']), ('truc::record::definition::builder::generic::variant', ['C03', 'C12']),
                ('truc::record::definition::builder', ['C12']), ('truc::record::definition', ['C12', 'C13']), ('truc::generator', ['C13', 'C19']))
    n_all = 0
    for x in crate.bodies:
        if '::tests::' in x.path or (crate.name if hasattr(crate, 'name') else 'truc') != 'truc' and not x.path.startswith('truc::') and not x.path.startswith('<truc::'):
            continue
        n_all += 1
        for bb, tm in x.calls():
            dp = callee_decl_path(tm) or callee_path(tm) or ''
            m = WHILE.search(dp)
            if m and 'Iterator' in dp:
                mod = x.module or ''
                pr = next((pp for mm, pp in MODPROPS if mod == mm or mod.startswith(mm + '::') or x.path.startswith(mm) or x.path.startswith('<' + mm)), ['C13'])
                ctx.add(pr, 'B-CURRENT', x.key, '`%s` at %s stops at the first element that fails its test: the elements after it are silently left out (`filter` / `filter_map` keep going)' % (m.group(1), fmt_span(tm['span'])), key='while|%s|%s' % (x.path, m.group(1)))
    ctx.inst('B-CURRENT', 'no take_while / skip_while / map_while in the %d non-test bodies of the crate' % n_all)
    # a lookup by name searches the data of the variant asked for (resp. the current data), not every definition
    # ever made: names are reused across the history, ids are not
    crate.body(DDC + 'iter')      # (an anchor: the walk over the whole collection stays a call in the helper view)
    for fn in ('get_variant_datum_definition_by_name', 'get_current_datum_definition_by_name'):
        fb = crate.body(GB + fn)
        if fb is None:
            continue
        bad = None
        for x in [fb] + crate.closures_of(fb.path):
            for bb, tm in x.calls():
                cp = callee_path(tm) or ''
                if (cp.startswith(DDC) and cp[len(DDC):] in ('iter', 'iter_mut', 'into_iter', 'values')) or (cp.startswith('<') and 'DatumDefinitionCollection' in cp and cp.endswith('::into_iter')):
                    bad = fmt_span(tm['span'])
        if bad:
            ctx.add(['C12'], 'B-CURRENT', fb.key, '%s walks every datum definition ever made (%s) instead of the data of the variant: a name re-used later in the history is answered with the older datum, or not at all' % (fn, bad), key='%s|whole-collection' % fn)
        else:
            ctx.inst('B-CURRENT', '%s looks definitions up by the ids of the variant' % fn)
    ctx.floor(['C12'], 'B-CURRENT', 3)




def for_each_closures(crate, b, defs, taint):
    """Closures of `b` (and of the helpers inlined into it) handed to `Iterator::for_each`: yields
    (call block, call term, closure body, labels of the iterated values)."""
    out = []
    for bb, t in b.calls():
        if (callee_path(t, resolved=False) or '').endswith('Iterator::for_each') and len(t['args']) == 2:
            cl = trace_value(b, defs, t['args'][1])[-1]
            if cl[0] == 'rv' and cl[1].get('ak') == 'closure':
                cb = crate.lookup(cl[1]['closure'])
                pl = op_place(t['args'][0])
                if cb is not None and pl is not None:
                    out.append((bb, t, cb, set(taint[pl['l']]), cl[1]))
    return out


def truc_rule_once(ctx, crate):
    """B-ONCE (C12): in every shipped strategy, each iteration of the loop over the ids being
    added performs exactly one list insertion (Vec::push / Vec::insert on the data list, or push_datum)."""
    GEN_SIG = STRATEGY_SIG
    strategies = []
    for path, fn in crate.fns.items():
        ins = fn.get('inputs') or []
        if len(ins) == 4 and ins[:3] == GEN_SIG and 'DatumDefinitionCollection' in ins[3] and fn.get('output') == GEN_SIG[0]:
            b = crate.lookup(path)
            if b is not None and b.def_kind in ('Fn', 'AssocFn'):
                strategies.append(b)
    for b in strategies:
        defs = local_defs(b)
        taint = taint_ids(b, {1: {'OLD'}, 2: {'ADD'}, 3: {'REMOVE'}})

        def is_the_list(l):
            """local 1 (the list handed to the strategy), possibly moved under another name (a helper's `mut data`)"""
            for _ in range(6):
                if l == 1:
                    return True
                ds = [d for d in defs.get(l, []) if not b.blocks[d[1]]['cleanup']]
                if len(ds) == 1 and ds[0][0] == 'stmt' and ds[0][3]['rv']['k'] == 'use' and 'move' in ds[0][3]['rv']['op'] and op_local(ds[0][3]['rv']['op']) is not None:
                    l = op_local(ds[0][3]['rv']['op'])
                    continue
                return False
            return False
        def insertion_blocks():
            out = []
            for bb, t in b.calls():
                p = callee_path(t) or ''
                idop = None
                if p in ('alloc::vec::Vec::<T, A>::push', 'alloc::vec::Vec::<T, A>::insert'):
                    r = trace_value(b, defs, t['args'][0])[-1]
                    if r[0] == 'ref' and not r[2]['p'] and is_the_list(r[2]['l']):
                        idop = t['args'][-1]
                elif p.endswith('NativeDataUpdater>::push_datum'):
                    idop = t['args'][2]
                if idop is not None:
                    out.append((bb, idop, t))
            return out
        ins = insertion_blocks()
        ins_blocks = [x[0] for x in ins]
        # bulk insertion: data.extend(<iterator over the added ids>) / extend_from_slice / append
        bulk = []
        for bb, t in b.calls():
            p = callee_path(t) or ''
            dp = callee_path(t, resolved=False) or ''
            if dp.endswith('Extend::extend') or p.endswith('::extend_from_slice') or p.endswith('Vec::<T, A>::append') or p.endswith('::extend'):
                r = trace_value(b, defs, t['args'][0])[-1]
                if r[0] == 'ref' and not r[2]['p'] and is_the_list(r[2]['l']) and len(t['args']) > 1 and op_place(t['args'][1]):
                    lab = taint[op_place(t['args'][1])['l']]
                    bulk.append((bb, lab, t))
        for fbb, ft, fcb, flab, frv in for_each_closures(crate, b, defs, taint):
            # `ids.for_each(|id| list.push_datum(defs, id))`: one insertion of the closure's parameter per element
            cdefs = local_defs(fcb)
            cins = []
            for cbb, ct in fcb.calls():
                cp = callee_path(ct) or ''
                if cp.endswith('NativeDataUpdater>::push_datum'):
                    cins.append((ct, ct['args'][2], ct['args'][0]))
                elif cp in ('alloc::vec::Vec::<T, A>::push',):
                    cins.append((ct, ct['args'][1], ct['args'][0]))
            loops = [x for x in range(len(fcb.blocks)) if x in fcb.reachable(fcb.blocks[x]['term'].get('t'), unwind=False)] if False else []
            one = len(cins) == 1 and trace_value(fcb, cdefs, cins[0][1])[-1] == ('param', 2)
            if one:
                # the receiver is the captured list
                recv = trace_value(fcb, cdefs, cins[0][2])[-1]
                cap_ok = False
                if recv[0] == 'place' or recv[0] == 'ref':
                    plx = recv[1] if recv[0] == 'place' else recv[2]
                    fidx = [e['f'] for e in plx['p'] if isinstance(e, dict) and 'f' in e]
                    if plx['l'] == 1 and fidx:
                        cap = frv['fields'][fidx[0]] if fidx[0] < len(frv['fields']) else None
                        if cap is not None:
                            r0 = trace_value(b, defs, cap)[-1]
                            cap_ok = r0[0] == 'ref' and not r0[2]['p'] and is_the_list(r0[2]['l'])
                # single pass over the closure body (no loop, every return after the insertion)
                ins_bb = [cbb for cbb, ct in fcb.calls() if ct is cins[0][0]][0]
                rets = [i for i, blk in enumerate(fcb.blocks) if blk['term']['k'] == 'return']
                straight = not any(r in fcb.reachable(0, unwind=False, removed_blocks=[ins_bb]) for r in rets) and ins_bb not in fcb.reachable(fcb.blocks[ins_bb]['term']['t'], unwind=False)
                if cap_ok and straight:
                    bulk.append((fbb, flab, ft))
        for bb, idop, t in ins:
            lab = taint[op_place(idop)['l']] if op_place(idop) else set()
            if 'ADD' not in lab or 'OLD' in lab or 'REMOVE' in lab:
                ctx.add(['C12'], 'B-ONCE', b.key, 'an id of provenance %s is inserted into the variant\'s list at %s (only ids being added may be inserted)' % (sorted(lab), fmt_span(t['span'])), key='%s|what' % b.path.split('::')[-1])
        # the outermost loop (strongly connected component of the normal-edge CFG) that contains insertions
        succ = {i: [s for s in b.successors(i, unwind=False)] for i in range(len(b.blocks))}
        def can_reach(a, c, removed=()):
            return c in b.reachable(a, unwind=False, removed_blocks=list(removed)) if a not in removed else False
        decided = False
        if ins_blocks:
            x0 = ins_blocks[0]
            scc = {y for y in b.reachable(x0, unwind=False) if x0 in b.reachable(y, unwind=False)} | {x0}
            if len(scc) > 1 or x0 in succ[x0]:
                # grow to the outermost loop containing it
                changed = True
                while changed:
                    changed = False
                    for y in range(len(b.blocks)):
                        if y not in scc and any(s in scc for s in succ[y]) and any(y in b.reachable(z, unwind=False) for z in scc):
                            # y is on a cycle with the component
                            if any(z in b.reachable(y, unwind=False) for z in scc) and y in set().union(*[b.reachable(z, unwind=False) for z in list(scc)[:1]]):
                                scc.add(y)
                                changed = True
                dom = b.dominators(unwind=False)
                heads_ = [h for h in scc if all(h in dom.get(y, set()) for y in scc)]
                if heads_:
                    hb = heads_[0]
                    mine = [x for x in ins_blocks if x in scc]
                    decided = True
                    # every cycle through the head passes an insertion
                    cyc = False
                    for s_ in succ[hb]:
                        if s_ in scc and s_ not in mine and hb in b.reachable(s_, unwind=False, removed_blocks=mine):
                            cyc = True
                    if cyc:
                        ctx.add(['C12'], 'B-ONCE', b.key, 'an added datum can go through an iteration of the placement loop without being inserted into the variant\'s list (it would silently be missing from the variant)', key='%s|skipped' % b.path.split('::')[-1])
                    twice = False
                    for x in mine:
                        s_ = b.blocks[x]['term']['t']
                        if s_ is None:
                            continue
                        r = b.reachable(s_, unwind=False, removed_blocks=[hb])
                        if any(y in r for y in mine):
                            twice = True
                    if twice:
                        ctx.add(['C12'], 'B-ONCE', b.key, 'an added datum can be inserted twice into the variant\'s list in one iteration', key='%s|twice' % b.path.split('::')[-1])
                    if not cyc and not twice:
                        ctx.inst('B-ONCE', '%s: exactly one list insertion per iteration of the placement loop (head bb%d, insertion sites bb%s)' % (b.path.split('::')[-1], hb, mine))
        if not decided and len(bulk) == 1 and not ins_blocks:
            bb, lab, t = bulk[0]
            if 'ADD' not in lab or 'OLD' in lab or 'REMOVE' in lab:
                ctx.add(['C12'], 'B-ONCE', b.key, 'the list is extended with ids of provenance %s at %s' % (sorted(lab), fmt_span(t['span'])), key='%s|what' % b.path.split('::')[-1])
            # the bulk insertion is on every path to the return
            rets = [i for i, blk in enumerate(b.blocks) if blk['term']['k'] == 'return']
            skipped = any(r in b.reachable(0, unwind=False, removed_blocks=[bb]) for r in rets)
            if skipped:
                ctx.add(['C12'], 'B-ONCE', b.key, 'the strategy can return without having appended the added ids to the list', key='%s|skipped' % b.path.split('::')[-1])
            else:
                ctx.inst('B-ONCE', '%s: the added ids are appended in bulk once on every path (bb%d)' % (b.path.split('::')[-1], bb))
            decided = True
        if not decided:
            ctx.add(['C12'], 'B-ONCE', b.key, 'cannot find the loop that inserts the added ids into the list (unanalysable: fail closed)', key='%s|shape' % b.path.split('::')[-1])
        # removals: the list is filtered with data_to_remove (retain / remove_data)
        rem = False
        for bb, t in b.calls():
            p = callee_path(t) or ''
            if p == 'alloc::vec::Vec::<T, A>::retain' or p.endswith('NativeDataUpdater>::remove_data'):
                r = trace_value(b, defs, t['args'][0])[-1]
                if r[0] == 'ref' and not r[2]['p'] and is_the_list(r[2]['l']):
                    rem = True
        if not rem:
            ctx.add(['C12'], 'B-ONCE', b.key, 'the strategy does not remove data_to_remove from the list', key='%s|remove' % b.path.split('::')[-1])
        else:
            # ... and does so on every path, except behind a test that there is nothing to remove
            rem_blocks = []
            for bb, t in b.calls():
                p = callee_path(t) or ''
                if p == 'alloc::vec::Vec::<T, A>::retain' or p.endswith('NativeDataUpdater>::remove_data'):
                    rem_blocks.append(bb)
            excused = []
            for sb in range(len(b.blocks)):
                si = switch_info(b, defs, sb)
                if si and si[0] == 'val' and si[1][0] == 'call' and (callee_path(si[1][1]) or '').endswith('::is_empty'):
                    recv = trace_value(b, defs, si[1][1]['args'][0])[-1]
                    base = recv[2]['l'] if recv[0] == 'ref' and not recv[2]['p'] else None
                    if base is None and recv[0] == 'call':
                        r2 = trace_value(b, defs, recv[1]['args'][0])[-1]
                        base = r2[2]['l'] if r2[0] == 'ref' and not r2[2]['p'] else None
                    if base == 3:
                        excused.append((sb, edge_for(b, sb, not si[2])))     # "data_to_remove is empty" edge
            rets = [i for i, blk in enumerate(b.blocks) if blk['term']['k'] == 'return']
            reach = b.reachable(0, unwind=False, removed_blocks=rem_blocks, removed_edges=excused)
            if any(r in reach for r in rets):
                ctx.add(['C12'], 'B-ONCE', b.key, 'the strategy can return without having removed data_to_remove from the list (on a path where data_to_remove need not be empty): removed data stay in the new variant', key='%s|remove-skipped' % b.path.split('::')[-1])
    ctx.floor(['C12'], 'B-ONCE', 6)
