"""SRC: repository-specific rules over the MIR of truc and truc_runtime (DESIGN §2.3, §3).

Every rule returns findings and a list of the instances it examined; a rule
that matches fewer instances than its floor fails closed.
"""
import re
from collections import defaultdict

from mirlib import (callee_path, callee_decl_path, callee_ty_args, op_place, op_local, op_int,
                    local_defs, single_def, trace_value, fmt_span, place_str, op_str)


class SrcFinding:
    def __init__(self, props, rule, where, msg, key):
        self.props = props
        self.rule = rule
        self.where = where
        self.msg = msg
        self.key = key
    def to_json(self):
        return {'props': self.props, 'rule': self.rule, 'fn': self.where, 'msg': self.msg, 'key': '%s|%s' % (self.rule, self.key),
                'module': None, 'tag': None}


class Ctx:
    def __init__(self):
        self.findings = []
        self.instances = defaultdict(list)   # rule -> [instance description]
    def add(self, props, rule, where, msg, key=None):
        self.findings.append(SrcFinding(props, rule, where, msg, key or where))
    def inst(self, rule, desc):
        self.instances[rule].append(desc)
    def floor(self, props, rule, n):
        got = len(self.instances[rule])
        if got < n:
            self.add(props, rule + '-FLOOR', None,
                     'rule %s matched %d instances, %d were confirmed by reading the pinned tree (anchor lost: fail closed)' % (rule, got, n),
                     key='floor')


# --------------------------------------------------------------------------
# R-PRIM: the four storage primitives of truc_runtime::data

PRIM = 'truc_runtime::data::RecordMaybeUninit::<CAP>::'
ALIGNED_ACCESS = {'core::ptr::read': True, 'core::ptr::write': True,
                  'core::ptr::read_unaligned': False, 'core::ptr::write_unaligned': False,
                  'core::ptr::const_ptr::<impl *const T>::read': True,
                  'core::ptr::mut_ptr::<impl *mut T>::read': True,
                  'core::ptr::mut_ptr::<impl *mut T>::write': True,
                  'core::ptr::const_ptr::<impl *const T>::read_unaligned': False,
                  'core::ptr::mut_ptr::<impl *mut T>::read_unaligned': False,
                  'core::ptr::mut_ptr::<impl *mut T>::write_unaligned': False}
PTR_CAST = {'core::ptr::const_ptr::<impl *const T>::cast', 'core::ptr::mut_ptr::<impl *mut T>::cast',
            'core::ptr::const_ptr::<impl *const T>::cast_mut', 'core::ptr::mut_ptr::<impl *mut T>::cast_const'}
PTR_ADD = {'core::ptr::const_ptr::<impl *const T>::add', 'core::ptr::mut_ptr::<impl *mut T>::add',
           'core::ptr::const_ptr::<impl *const T>::byte_add', 'core::ptr::mut_ptr::<impl *mut T>::byte_add'}
SLICE_PTR = {'core::slice::<impl [T]>::as_ptr': False, 'core::slice::<impl [T]>::as_mut_ptr': True,
             'core::array::<impl [T; N]>::as_ptr': False, 'core::array::<impl [T; N]>::as_mut_ptr': True}


def pointer_chain(body, defs, op):
    """Trace a raw pointer back to the borrow it derives from.
    Returns dict(adds=[offset operand...], root=('ref', bk, place) | other, mutable_root=bool, other=[...])."""
    adds, other = [], []
    cur = op
    root = None
    mutable = None
    for _ in range(32):
        steps = trace_value(body, defs, cur)
        term = steps[-1]
        if term[0] == 'call':
            t = term[1]
            p = callee_path(t)
            if p in PTR_CAST:
                cur = t['args'][0]
                continue
            if p in PTR_ADD:
                adds.append(t['args'][1])
                cur = t['args'][0]
                continue
            if p in SLICE_PTR:
                mutable = SLICE_PTR[p]
                cur = t['args'][0]
                continue
            other.append(p)
            root = ('call', p)
            break
        if term[0] == 'ref':
            root = term
            break
        root = term
        break
    return {'adds': adds, 'root': root, 'via_mut_ptr': mutable, 'other': other}


def rule_prim(ctx, crate):
    """R-PRIM (C04, C07): per primitive: touches exactly base+offset; stores and `&mut`
    go through a pointer with write provenance; alignment requirement of the access."""
    summary = {'no_unwind': True}
    for name in ('read', 'write', 'get', 'get_mut'):
        b = crate.body(PRIM + name)
        if b is None:
            ctx.add(['C04', 'C07'], 'R-PRIM', PRIM + name, 'primitive not found (anchor lost)', key=name)
            continue
        defs = local_defs(b)
        access = None      # (pointer operand, aligned, is_store)
        for bb, t in b.calls():
            p = callee_path(t)
            if p in ALIGNED_ACCESS:
                access = (t['args'][0], ALIGNED_ACCESS[p], 'write' in p, fmt_span(t['span']))
        if access is None and name in ('get', 'get_mut'):
            # the returned reference: _0 = &[mut] (*_p) possibly through reborrows
            steps = trace_value(b, defs, {'copy': {'l': 0, 'p': [], 'ty': None}})
            # walk reborrows down to the raw pointer local
            ptr_local = None
            l = 0
            seen = 0
            mut_ref = None
            while seen < 16:
                seen += 1
                d = single_def(defs, l)
                if d is None or d[0] != 'stmt':
                    break
                rv = d[3]['rv']
                if rv['k'] == 'ref' and rv['place']['p'] == ['deref']:
                    if mut_ref is None:
                        mut_ref = rv['bk'] == 'mut'
                    src = rv['place']['l']
                    if b.local_ty(src).startswith('*'):
                        ptr_local = src
                        break
                    l = src
                    continue
                if rv['k'] == 'use' and op_local(rv['op']) is not None:
                    l = op_local(rv['op'])
                    continue
                break
            if ptr_local is not None:
                access = ({'copy': {'l': ptr_local, 'p': [], 'ty': None}}, True, bool(mut_ref), b.span())
        if access is None:
            ctx.add(['C04', 'C07'], 'R-PRIM', PRIM + name, 'cannot find the memory access of the primitive (unanalysable: fail closed)', key=name)
            continue
        ptr, aligned, is_store, where = access
        ch = pointer_chain(b, defs, ptr)
        ctx.inst('R-PRIM', '%s: access through %s, adds=%d, root=%s' % (name, 'aligned op' if aligned else 'unaligned op', len(ch['adds']), ch['root'][:2] if ch['root'] else None))
        # base + offset, nothing else
        ok_add = len(ch['adds']) == 1 and op_local(ch['adds'][0]) is not None
        if ok_add:
            st = trace_value(b, defs, ch['adds'][0])
            ok_add = st[-1] == ('param', 2)
        if not ok_add or ch['other']:
            ctx.add(['C04', 'C07'], 'R-PRIM', PRIM + name, 'the pointer is not `data + offset` exactly (adds: %s, other calls: %s)' % (
                [op_str(a) for a in ch['adds']], ch['other']), key=name + '.addr')
        root = ch['root']
        root_ok = root is not None and root[0] == 'ref' and root[2]['l'] == 1 and \
            [e.get('name') if isinstance(e, dict) else e for e in root[2]['p']] == ['deref', 'data']
        if not root_ok:
            ctx.add(['C04', 'C07'], 'R-PRIM', PRIM + name, 'the pointer does not derive from a borrow of self.data: %s' % (root,), key=name + '.root')
        needs_write = is_store or name in ('write', 'get_mut')
        if needs_write:
            ctx.inst('R-PRIM-PROV', name)
            root_mut = root_ok and root[1] in ('mut', 'rawmut')
            if not (root_mut and ch['via_mut_ptr'] in (True, None)):
                ctx.add(['C04', 'C07'], 'R-PRIM-PROV', PRIM + name,
                        '%s stores through a pointer derived from a shared borrow (`%s` + %s, then cast to *mut): the pointer carries no write permission, stores through it are undefined and may be discarded by the optimiser' % (
                            name, root[1] if root_ok else root, 'as_ptr' if ch['via_mut_ptr'] is False else 'no slice pointer'),
                        key=name + '.prov')
        summary[name] = {'aligned': aligned, 'where': where}
        # unwinding
        from geninterp import NO_UNWIND_EXTERNAL
        for bb, t in b.calls():
            p = callee_path(t)
            if p not in NO_UNWIND_EXTERNAL and p not in ALIGNED_ACCESS and p not in PTR_CAST and p not in PTR_ADD and p not in SLICE_PTR:
                summary['no_unwind'] = False
        for blk in b.blocks:
            t = blk['term']
            if t['k'] == 'assert' and t['unwind'] != 'unreachable':
                summary['no_unwind'] = False
    b = crate.body(PRIM + 'new')
    if b is None:
        ctx.add(['C04'], 'R-PRIM', PRIM + 'new', 'primitive not found (anchor lost)', key='new')
    ctx.floor(['C04', 'C07'], 'R-PRIM', 4)
    ctx.floor(['C04', 'C07'], 'R-PRIM-PROV', 2)
    return summary


# --------------------------------------------------------------------------
# rule sets

def run_runtime_rules(ctx, crate, label):
    try:
        import convcheck
    except ImportError:
        return
    convcheck.run(ctx, crate, label)


def run_truc_rules(ctx, crate, label):
    for name, fn in sorted(globals().items()):
        if name.startswith('truc_rule_') and callable(fn):
            fn(ctx, crate)
