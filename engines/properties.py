"""properties: which rules decide which property, and how a run is reported as evidence."""
import json, os

CORPUS_FLOOR = {'quick': 200, 'thorough': 2500}

TRUSTED = [
    "rustc nightly front end, type checker, trait solver, layout computation and MIR construction at -Zmir-opt-level=0",
    "the mirdump fact extractor serialises rustc's MIR faithfully (no rule inside)",
    "semantics table of the core/alloc functions the analysers interpret (ptr::read/write, ManuallyDrop, mem::forget, MaybeUninit, Vec::set_len/as_mut_slice, slice Index<Range>/Iter::next, catch_unwind/resume_unwind, transmute)",
    "no-unwind seeds (DESIGN §2.2)",
]


def history_key(m):
    return m.get('tag') or m.get('module')


# rule (prefix) -> stats keys that count its evaluations
SPECS = {
    'C02': dict(level='translation_validation', engines=['GEN'], rules=['G-CAP', 'G-LAYOUT', 'G-ANCHOR', 'G-DEF'],
                stats=['cap_accesses', 'cap_layouts', 'layout_records'],
                what='every typed access of every generated function fits MAX_SIZE, is offset-aligned for rustc\'s align_of, and repr(align) of the record types is a multiple of it; every definition recorded by the corpus build (incl. shapes whose size is not a multiple of their alignment) has its data aligned, inside the capacity and listed in address order'),
    'C03': dict(level='translation_validation', engines=['GEN', 'SRC'], rules=['G-LAYOUT', 'G-MOVED', 'W1', 'B-APPEND'],
                stats=['layout_records', 'cap_layouts', 'kind:conv'],
                what='offsets are written only by strategy code and only for ids of data being added; all record types of a module have one repr(align) and one field type, rustc layouts agree for several capacities; kept data stay at their (offset,type)'),
    'C04': dict(level='translation_validation', engines=['GEN', 'SRC'], rules=['G-ACC', 'G-FIELD', 'G-DISJ', 'G-SHAPE', 'G-PRESENT', 'G-STORE', 'G-UNINIT', 'G-PRIM', 'R-PRIM'],
                stats=['accessors', 'kind:new', 'kind:new_uninit', 'kind:unpack', 'kind:from_unpacked', 'kind:from_unpacked_uninit', 'disjoint_pairs'],
                what='accessor / constructor / unpack tables agree per variant, fields are byte-disjoint, primitives touch base+offset through a pointer with write provenance'),
    'C05': dict(level='translation_validation', engines=['GEN'], rules=['G-CONV', 'G-FIELD', 'G-PRESENT', 'G-MOVED', 'G-SHAPE', 'G-ANCHOR', 'G-DISJ', 'G-STORE', 'G-INV'],
                stats=['kind:conv'],
                what='all four conversion forms per adjacent pair: removed cells read before the buffer is duplicated, carried cells untouched, added cells written from the same-named input field, removed values handed back under their own name'),
    'C06': dict(level='translation_validation', engines=['GEN', 'SRC'], rules=['R-PRIM', 'G-LEAK', 'G-DOUBLE', 'G-INV', 'G-OWN', 'G-CONV', 'G-PRESENT', 'G-UNANALYSABLE', 'G-CLONE', 'copy-of-owned', 'overwrite-owned'],
                stats=['functions', 'paths', 'kind:drop', 'kind:unpack', 'kind:conv'],
                what='ownership typestate over the bytes of every buffer: on every exit of every generated function each owned droppable cell was consumed exactly once'),
    'C07': dict(level='translation_validation', engines=['GEN', 'SRC'], rules=['G-CAP', 'G-DEST', 'G-PRIM', 'G-TYPE', 'G-STORE', 'G-DOUBLE', 'G-INV', 'G-OWN', 'G-ACC', 'G-DISJ', 'G-UNANALYSABLE', 'R-PRIM', 'use-after-move'],
                stats=['cap_accesses', 'dest_checks', 'prim_guard_evals', 'functions', 'paths'],
                what='bounds, offset alignment, record alignment, type agreement at every access, no read of a moved-out cell, no store over an owned cell, no alignment-requiring store into an align-1 buffer'),
    'C08': dict(level='other', engines=['CONV'], rules=['O1', 'O2', 'O3', 'O4', 'O5', 'CONV', 'A-DELEG'],
                what='three-region invariant of the in-place conversion loop proved by abstract interpretation for all lengths and all converted/abandoned patterns; the result Vec is the input allocation'),
    'C09': dict(level='other', engines=['CONV'], rules=['O2', 'O6', 'O7', 'O8', 'O9', 'CONV'],
                what='region invariant at every feasible unwind edge and at the error return; cleanup drops exactly [0,produced) as U and [consumed,len) as T; allocation released; error / payload passed through; converter not called again'),
    'C10': dict(level='other', engines=['SRC'], rules=['A-GUARD', 'A-DELEG'],
                what='both size_of/align_of equalities dominate taking ownership of the buffer, every element access and every converter call; the failing edge only panics and drops the input'),
    'C11': dict(level='translation_validation', engines=['WIT', 'GEN'], rules=['G-ASSERT', 'G-TYPEINFO', 'G-UNINIT', 'W-C11'],
                stats=['assert_types'],
                what='compile-fail witnesses for perturbed size / align / may-be-uninit on non-Copy, each with a compiling twin; every field type has a size and an alignment const assertion'),
    'C12': dict(level='other', engines=['SRC', 'GEN'], rules=['B-', 'G-HISTORY', 'G-PANIC'],
                what='ids come from the length of an append-only vector; rejected requests mutate nothing; variants.push is control-dependent on pending changes; build() dominated by both emptiness checks; each strategy lists each added id once'),
    'C13': dict(level='translation_validation', engines=['GEN', 'SRC'], rules=['G-PANIC', 'G-COMPILES', 'S-SENTINEL', 'S-RAW'],
                stats=[],
                what='no arithmetic on an offset obtained through the raw datum collection unless the placeholder usize::MAX is told apart (S-SENTINEL; S-RAW for walks inside the generator); every corpus module × fragment selection type-checks; builder/generator panics on corpus definitions are reported'),
    'C14': dict(level='translation_validation', engines=['GEN'], rules=['G-AUTO', 'G-LAYOUT'],
                stats=['auto_trait_queries'],
                what='for every record type: Send/Sync (rustc trait solver) iff every field type is'),
    'C15': dict(level='translation_validation', engines=['GEN'], rules=['G-SERDE', 'G-HISTORY', 'G-LEAK', 'G-DOUBLE', 'G-UNANALYSABLE'],
                stats=['kind:serialize', 'kind:visit_seq', 'kind:deserialize'],
                what='serialiser and visitor tables agree: arity, order, types; fields listed in the order of the requests; visitor feeds the same-named constructor field; wrong length / missing element rejected; decoded values dropped on early return'),
    'C16': dict(level='translation_validation', engines=['GEN'], rules=['G-CLONE'],
                stats=['kind:clone', 'kind:clone_from'],
                what='clone builds every field from the same-named accessor exactly once; clone_from assigns every field through the same-named accessor pair; no leak/double drop on a panicking field clone'),
    'C17': dict(level='other', engines=['WIT', 'SRC'], rules=['K-NORM', 'W-C17'],
                what='type-equality probes type-checked by rustc for the names the crate prints over a grammar of types and for the answers of a table looked up under several spellings; table insert and lookup keys pass through the same normaliser'),
    'C18': dict(level='other', engines=['SRC'], rules=['H-'],
                what='size_of/align_of/type_name only in the host resolver, table registration and the name printer; every stored TypeInfo flows from the resolver / override / copied datum; lookups return the stored entry unmodified; registrations never overwrite; wrapper resolvers forward; serde derives symmetric and complete'),
    'C19': dict(level='other', engines=['SRC'], rules=['N-DET'],
                what='no observation of hash order, random source, clock, environment read, address used as identity or order, interior-mutable field or shared static (other than constant write-once tables) in non-test code of truc'),
    'C20': dict(level='other', engines=['SRC'], rules=['V-'],
                what='per source variant: removals, then additions, then exactly one close; removed ids go through the id map; added ids recorded in it; the variant map receives (source id -> returned id)'),
}


# rule families that necessarily have at least one instance on a tree where the property holds: if one of
# them produced nothing, the analyser did not run (or lost its anchor) and the check fails closed
REQUIRE = {
    'C03': ['B-APPEND', 'W1a', 'W1b', 'W1c', 'W1d'],
    'C04': ['R-PRIM'], 'C06': ['R-PRIM-CONSUME'], 'C07': ['R-PRIM'],
    'C08': ['A-DELEG', 'O1', 'O2', 'O3', 'O4', 'O5'],
    'C09': ['O2', 'O6', 'O7', 'O8', 'O9'],
    'C10': ['A-GUARD', 'A-DELEG'],
    'C12': ['B-PURE', 'B-GUARD-DUP', 'B-GUARD-RM', 'B-NOOP', 'B-BUILD', 'B-APPEND', 'B-DELEG', 'B-CURRENT', 'B-ONCE'],
    'C17': ['K-NORM'],
    'C18': ['H-FLOW', 'H-HOST', 'H-TABLE', 'H-SERDE'],
    'C19': ['N-DET'],
    'C20': ['V-ORDER', 'V-MAP', 'V-DELTA', 'V-ERR'],
}


# counters of the GEN / WIT engines that cannot be zero when the analysis really ran over the corpus
REQUIRE_STATS = {
    'C02': ['cap_accesses', 'cap_layouts', 'layout_records'],
    'C03': ['layout_records', 'kind:conv'],
    'C04': ['accessors', 'kind:new', 'kind:unpack', 'disjoint_pairs'],
    'C05': ['kind:conv'],
    'C06': ['kind:drop', 'kind:unpack', 'kind:conv', 'kind:new'],
    'C07': ['cap_accesses', 'dest_checks', 'prim_guard_evals'],
    'C11': ['assert_types'],
    'C14': ['auto_trait_queries'],
    'C15': ['kind:serialize', 'kind:visit_seq', 'kind:deserialize'],
    'C16': ['kind:clone'],
}
REQUIRE_WITNESSES = {'C11': 40, 'C17': 200}


def rule_matches(rule, prefixes):
    return any(rule == p or rule.startswith(p) for p in prefixes)


def one_line(prop, spec, res):
    g = res['engines'].get('GEN', {})
    s = res['engines'].get('SRC', {})
    bits = []
    if 'GEN' in spec['engines']:
        bits.append('%d generated modules, %d functions, %d paths' % (len(g.get('modules', [])), g.get('stats', {}).get('functions', 0), g.get('stats', {}).get('paths', 0)))
    if 'SRC' in spec['engines'] or 'CONV' in spec['engines']:
        inst = {r: len(v) for r, v in s.get('rules', {}).items() if rule_matches(r, spec['rules'])}
        bits.append('rule instances %s' % inst)
    if 'WIT' in spec['engines']:
        w = res['engines'].get('WIT', {})
        bits.append('%d witnesses' % w.get(prop, {}).get('count', 0))
    return '; '.join(bits)


def evidence(prop, spec, res, tier, seed, nviol, nknown, wall):
    g = res['engines'].get('GEN', {})
    s = res['engines'].get('SRC', {})
    w = res['engines'].get('WIT', {}).get(prop, {})
    level = spec['level']
    cov = {'explanation': spec['what'], 'tree_hash': res['tree'], 'rules': spec['rules'],
           'engines': spec['engines'], 'facts_wall_s': res.get('wall_s'),
           'checker_cmd': 'bin/verif check %s --tier %s' % (prop, tier), 'trusted_base': TRUSTED}
    src_inst = {r: v for r, v in s.get('rules', {}).items() if rule_matches(r, spec['rules'])}
    n_src = sum(len(v) for v in src_inst.values())
    if src_inst:
        cov['rule_instances'] = src_inst
        cov['configs'] = s.get('configs')
    if 'CONV' in spec['engines'] and s.get('conv'):
        cov['conv'] = s['conv']
    n_checks = 0
    if 'GEN' in spec['engines']:
        st = g.get('stats', {})
        mods = g.get('modules', [])
        n_checks = sum(st.get(k, 0) for k in spec.get('stats', []))
        cov['programs'] = len(mods)
        cov['gen_stats'] = {k: st.get(k, 0) for k in sorted(st)}
        cov['corpus_modules_enumerated'] = g.get('corpus_modules')
        cov['definitions_checked'] = g.get('definitions_checked')
        cov['samples'] = g.get('samples', [])[:4]
        cov['module_labels'] = [m['label'] for m in mods][:400]
    if w:
        cov['witnesses'] = w
        n_checks += w.get('count', 0)
        if 'samples' not in cov:
            cov['samples'] = w.get('samples', [])[:6]
    if level == 'translation_validation':
        cov.setdefault('programs', w.get('count', 0))
        cov['disagreements_checked'] = n_checks + n_src
        cov.setdefault('samples', [])
        if not cov['samples']:
            cov['samples'] = [{'note': 'no sample available'}]
    else:
        obligations = n_src
        conv = s.get('conv') or {}
        if 'CONV' in spec['engines']:
            for label, c in conv.items():
                obligations += len([o for o in c.get('obligations', []) if rule_matches(o['id'], spec['rules'])])
        cov['obligations'] = obligations + w.get('count', 0)
        cov['discharged'] = max(0, cov['obligations'] - nviol)
        samples = []
        for r, v in list(src_inst.items())[:6]:
            samples.append({'rule': r, 'instances': v[:6]})
        if 'CONV' in spec['engines']:
            for label, c in conv.items():
                samples.append({'config': label, 'obligations': [o for o in c.get('obligations', []) if rule_matches(o['id'], spec['rules'])][:12]})
        if w:
            samples += w.get('samples', [])[:6]
        cov['samples'] = samples or [{'note': 'no instance'}]
        distinct = set()
        for r, v in src_inst.items():
            for x in v:
                distinct.add((r, x))
        if 'CONV' in spec['engines']:
            for label, c in conv.items():
                for o in c.get('obligations', []):
                    if rule_matches(o['id'], spec['rules']):
                        distinct.add((o['id'], o['where'], o['text']))
        for smp in w.get('samples', []) if w else []:
            distinct.add(json.dumps(smp, sort_keys=True))
        cov['evaluations'] = max(1, cov['obligations'])
        cov['distinct_nontrivial'] = max(2, len(distinct) + max(0, w.get('count', 0) - len(w.get('samples', []))) if w else len(distinct))
        cov['rule'] = 'one evaluation = one rule instance / obligation / witness examined on the current tree'
    return {
        'property_id': prop, 'tier': tier if tier in ('quick', 'thorough') else 'quick', 'seed': seed, 'level': level,
        'coverage': cov,
        'assumptions': ['see DESIGN.md §5 (trusted base); properties of generated code are decided for the corpus of definitions (translation validation), not for all definitions'],
        'wall_s': round(wall, 2), 'violations': nviol, 'known_findings': nknown,
    }
