"""witness: compile / compile-fail witnesses (engine WIT, DESIGN §2.6).

C17: type-name probes type-checked by rustc (crate /verif/probes).
C11: generated modules with perturbed type information must be rejected by rustc
     (E0080 / E0277) while their unperturbed twins compile.
Nothing is executed except rustc and the build scripts that call /repo's printer / generator.
"""
import os, json, glob, subprocess, shutil, re, time
from concurrent.futures import ThreadPoolExecutor


def sysroot():
    return subprocess.run(['rustc', '+nightly', '--print', 'sysroot'], capture_output=True, text=True).stdout.strip()


def run_probes(o, fdir, tier, nonce, out):
    pdir = os.path.join(o.here, 'probes')
    shutil.copyfile(os.path.join(o.repo, 'Cargo.lock'), os.path.join(pdir, 'Cargo.lock'))
    idx = os.path.join(fdir, 'probes_index.json')
    tgt = os.path.join(o.work, 'target-probes')
    env = dict(os.environ, CARGO_NET_OFFLINE='true', PROBES_INDEX=idx, PROBES_NONCE=nonce, CARGO_TARGET_DIR=tgt, RUSTFLAGS='-Awarnings')
    cmd = ['cargo', '+nightly', 'check', '--offline', '--message-format=json']
    if tier == 'thorough':
        cmd += ['--features', 'thorough']
    r = subprocess.run(cmd, cwd=pdir, env=env, capture_output=True, text=True)
    with open(os.path.join(fdir, 'logs', 'probes.log'), 'w') as f:
        f.write(r.stderr[-20000:])
    if not os.path.exists(idx):
        out['errors'].append('type-name probes: the build script produced no index (see logs/probes.log)')
        return
    d = json.load(open(idx))
    if d.get('nonce') != nonce:
        out['errors'].append('type-name probes: stale index')
        return
    if d.get('printer_panic') is not None:
        out['findings'].append({'props': ['C17'], 'rule': 'W-C17', 'engine': 'WIT', 'module': None, 'tag': None, 'fn': 'truc_type_name',
                                'msg': 'the name printer panicked on a type of the grammar: %s' % d['printer_panic'], 'key': 'W-C17|panic'})
    probes = d['probes']
    header = d['header_lines']
    bad = {}
    other_errors = []
    for line in r.stdout.splitlines():
        try:
            m = json.loads(line)
        except ValueError:
            continue
        if m.get('reason') != 'compiler-message':
            continue
        msg = m['message']
        if msg.get('level') != 'error':
            continue
        spans = [s for s in msg.get('spans', []) if s.get('file_name', '').endswith('probes.rs')]
        code = (msg.get('code') or {}).get('code')
        if spans:
            i = spans[0]['line_start'] - header - 1
            if 0 <= i < len(probes):
                bad.setdefault(i, (code, msg.get('message', '')[:200]))
                continue
        if 'aborting due to' not in msg.get('message', ''):
            other_errors.append(msg.get('message', '')[:200])
    if r.returncode != 0 and not bad:
        out['errors'].append('type-name probes: cargo check failed for another reason: %s' % (other_errors[:2] or r.stderr[-300:]))
    for i, (code, text) in sorted(bad.items()):
        p = probes[i]
        out['findings'].append({'props': ['C17'], 'rule': 'W-C17', 'engine': 'WIT', 'module': None, 'tag': None, 'fn': 'truc_type_name',
                                'msg': 'the name recorded for `%s` is `%s`, which rustc does not accept as that type in generated-code context: %s %s' % (p['type'], p['printed'], code, text),
                                'key': 'W-C17|%s' % p['type']})
    floor = 250 if tier != 'thorough' else 1000
    if len(probes) < floor and d.get('printer_panic') is None:      # (a panic of the printer is reported as a C17 finding above)
        out['errors'].append('type-name probes: only %d probes (floor %d)' % (len(probes), floor))
    out['evidence']['C17'] = {'count': len(probes), 'failed': len(bad),
                              'samples': [{'type': p['type'], 'printed': p['printed'], 'verdict': 'rustc: same type' if p['probe'] not in bad else 'rejected'} for p in probes[::max(1, len(probes) // 8)]][:8],
                              'rule': 'probe `let _: PhantomData<T> = PhantomData::<NAME>;` must type-check'}


def compile_witness(args):
    rustc_env, wrapper, file, deps, externs, outdir, name = args
    cmd = ['rustc', '+nightly', '--edition', '2021', '--crate-type', 'lib', '--crate-name', name, '--emit=metadata', '-o', os.path.join(outdir, name + '.rmeta'),
           '-L', 'dependency=' + deps, '--error-format=json', '-Awarnings'] + externs + [wrapper]
    r = subprocess.run(cmd, capture_output=True, text=True, env=rustc_env)
    codes, texts, files = [], [], []
    for line in r.stderr.splitlines():
        try:
            m = json.loads(line)
        except ValueError:
            continue
        if m.get('level') == 'error' and 'aborting due to' not in m.get('message', ''):
            codes.append((m.get('code') or {}).get('code'))
            texts.append(m.get('message', '')[:160])
            for s in m.get('spans', []):
                files.append(s.get('file_name'))
                exp = s.get('expansion')
                while exp:
                    files.append(exp['span'].get('file_name'))
                    exp = exp['span'].get('expansion')
    return name, r.returncode, codes, texts, files


def run_c11(o, fdir, tier, seed, nonce, out):
    run = os.path.join(o.here, 'bin', 'mirdump-run')
    tgt = os.path.join(o.work, 'target-corpus-wit')
    idx_dir = os.path.join(fdir, 'corpus_idx')
    env = dict(os.environ, CARGO_NET_OFFLINE='true', VERIF_TIER=tier, VERIF_SEED=str(seed), CORPUS_NONCE=nonce, CORPUS_KIND='witness', CORPUS_SHARD='0/1',
               CORPUS_INDEX_DIR=idx_dir, MIRDUMP_CRATES='__none__', MIRDUMP_NONCE=nonce)
    log = os.path.join(fdir, 'logs', 'witness_build.log')
    with open(log, 'w') as f:
        rc = subprocess.run([run, os.path.join(o.here, 'corpus'), os.path.join(fdir, 'facts_wit'), tgt], env=env, stdout=f, stderr=subprocess.STDOUT).returncode
    idxf = os.path.join(idx_dir, 'index-witness-0.json')
    if rc != 0 or not os.path.exists(idxf):
        out['errors'].append('C11 witnesses: building the witness corpus failed (see %s)' % log)
        return
    d = json.load(open(idxf))
    if d.get('nonce') != nonce:
        out['errors'].append('C11 witnesses: stale index')
        return
    deps = os.path.join(tgt, 'debug', 'deps')
    externs = []
    for crate in ('truc_runtime', 'static_assertions', 'serde'):
        c = sorted(glob.glob(os.path.join(deps, 'lib%s-*.rmeta' % crate)), key=os.path.getmtime)
        if not c:
            out['errors'].append('C11 witnesses: no rmeta for %s' % crate)
            return
        externs += ['--extern', '%s=%s' % (crate, c[-1])]
    wdir = os.path.join(fdir, 'witness_src')
    os.makedirs(wdir, exist_ok=True)
    rustc_env = dict(os.environ, LD_LIBRARY_PATH=os.path.join(sysroot(), 'lib'))
    tasks = []
    mods = {}
    for m in d['modules']:
        mods[m['module']] = m
        if 'file' not in m:
            continue
        wrapper = os.path.join(wdir, m['module'] + '.rs')
        with open(wrapper, 'w') as f:
            f.write('#![allow(warnings)]\n#[macro_use]\nextern crate static_assertions;\n#[path = "%s"]\npub mod types;\npub mod m { include!("%s"); }\n' % (
                os.path.join(o.here, 'corpus', 'src', 'types.rs'), m['file']))
        tasks.append((rustc_env, wrapper, m['file'], deps, externs, wdir, m['module']))
    results = {}
    with ThreadPoolExecutor(max_workers=16) as ex:
        for name, rc, codes, texts, files in ex.map(compile_witness, tasks):
            results[name] = (rc, codes, texts, files)
    shutil.rmtree(wdir, ignore_errors=True)
    # verdicts
    twins_ok = {}
    samples = []
    n = 0
    for name, m in mods.items():
        tag = m['tag']
        parts = tag.split('/')
        group = '/'.join(parts[:3])
        if m.get('expect') == 'compiles' and parts[-1] == 'twin':
            twins_ok[group] = name in results and results[name][0] == 0
    for name, m in sorted(mods.items()):
        tag = m['tag']
        exp = m.get('expect')
        group = '/'.join(tag.split('/')[:3])
        if 'file' not in m:
            # the builder / generator refused the perturbed definition: not a compile-time matter
            if exp == 'compiles':
                out['findings'].append({'props': ['C11', 'C13'], 'rule': 'W-C11', 'engine': 'WIT', 'module': tag, 'tag': tag, 'fn': None,
                                        'msg': 'unperturbed witness could not be generated: %s' % (m.get('builder_panic') or m.get('generator_panic') or m.get('max_size_panic')),
                                        'key': 'W-C11|%s' % tag})
            continue
        rc, codes, texts, files = results[name]
        n += 1
        verdict = 'ok'
        if exp == 'compiles':
            if rc != 0:
                verdict = 'twin-fails'
                out['findings'].append({'props': ['C11', 'C13'], 'rule': 'W-C11', 'engine': 'WIT', 'module': tag, 'tag': tag, 'fn': None,
                                        'msg': 'a definition with correct type information does not compile: %s %s' % (codes[:2], texts[:2]), 'key': 'W-C11|%s' % tag})
        else:
            if not twins_ok.get(group, False):
                verdict = 'no-twin'
            elif rc == 0:
                verdict = 'accepted'
                what = {'E0080': 'recorded size / alignment differs from the real one', 'E0277': 'a field allowed to stay uninitialised has a type that is not Copy'}[exp]
                out['findings'].append({'props': ['C11'], 'rule': 'W-C11', 'engine': 'WIT', 'module': tag, 'tag': tag, 'fn': None,
                                        'msg': 'witness %s: %s, yet the generated module compiles (expected rustc error %s); its unperturbed twin compiles too' % (tag, what, exp),
                                        'key': 'W-C11|%s' % '/'.join(tag.split('/')[1:])})
            elif exp not in codes:
                verdict = 'wrong-error'
                out['findings'].append({'props': ['C11'], 'rule': 'W-C11', 'engine': 'WIT', 'module': tag, 'tag': tag, 'fn': None,
                                        'msg': 'witness %s is rejected, but not by the mechanism under test: got %s %s, expected %s' % (tag, codes[:3], texts[:1], exp),
                                        'key': 'W-C11|wrong|%s' % '/'.join(tag.split('/')[1:])})
        if len(samples) < 10 and (exp != 'compiles' or len(samples) < 2):
            samples.append({'witness': tag, 'expected': exp, 'observed': 'compiles' if rc == 0 else sorted(set(c for c in codes if c)), 'verdict': verdict})
    floor = 40 if tier != 'thorough' else 250
    if n < floor:
        out['errors'].append('C11 witnesses: only %d witnesses compiled (floor %d)' % (n, floor))
    out['evidence']['C11'] = {'count': n, 'twins': len(twins_ok), 'twins_compiling': sum(1 for v in twins_ok.values() if v), 'samples': samples,
                              'rule': 'perturbed recorded size/alignment => E0080 at a const assertion; may-be-uninit non-Copy => E0277; each with a compiling twin'}


def run(o, fdir, tier, seed, nonce):
    out = {'findings': [], 'errors': [], 'evidence': {}}
    os.makedirs(os.path.join(fdir, 'logs'), exist_ok=True)
    run_probes(o, fdir, tier, nonce, out)
    run_c11(o, fdir, tier, seed, nonce, out)
    return out
