//! Compile / compile-fail witnesses (C11): definitions whose recorded type
//! information is perturbed, each paired with an unperturbed twin.
use super::*;
use Strategy::*;
use Ty::*;

fn half(x: usize) -> usize { x / 2 }
fn dbl(x: usize) -> usize { if x == 0 { 1 } else { x * 2 } }
fn plus1(x: usize) -> usize { x + 1 }
fn minus1(x: usize) -> usize { x - 1 }

fn history(ty: Ty, uninit: bool, perturb: Perturb, later: bool) -> Vec<Step> {
    let subject = Step::Add { name: "w".to_owned(), ty, uninit, perturb };
    if later {
        vec![add("a", Str), addu("b", U8), close(Simple), rm("b"), subject, close(Simple)]
    } else {
        vec![addu("b", U8), subject, add("a", Str), close(Simple)]
    }
}

pub fn specs(thorough: bool) -> Vec<ModuleSpec> {
    let pool: Vec<Ty> = if thorough {
        ALL_TYPES.iter().copied().filter(|t| *t != NoSuchType).collect()
    } else {
        vec![U32, Str, Odd12, Over16, A3U8, U128]
    };
    let mut out = Vec::new();
    for &ty in &pool {
        for later in [false, true] {
            let pos = if later { "later" } else { "first" };
            let mut twin = ModuleSpec::new(format!("wit/{}/{}/twin", ty.name(), pos), history(ty, false, Perturb::default(), later));
            twin.expect = Some("compiles".into());
            out.push(twin);
            let mut cases: Vec<(&str, Perturb)> = Vec::new();
            cases.push(("size+1", Perturb { size: Some(plus1), align: None }));
            if ty.size() >= 1 {
                cases.push(("size-1", Perturb { size: Some(minus1), align: None }));
            }
            cases.push(("align*2", Perturb { size: None, align: Some(dbl) }));
            if ty.align() >= 2 {
                cases.push(("align/2", Perturb { size: None, align: Some(half) }));
            }
            for (label, p) in cases {
                let mut m = ModuleSpec::new(format!("wit/{}/{}/{}", ty.name(), pos, label), history(ty, false, p, later));
                m.expect = Some("E0080".into());
                out.push(m);
            }
            if !ty.is_copy() {
                let mut m = ModuleSpec::new(format!("wit/{}/{}/uninit-not-copy", ty.name(), pos), history(ty, true, Perturb::default(), later));
                m.expect = Some("E0277".into());
                out.push(m);
                // the same, preceded (in the same step) by a plain datum of the same type, and by a
                // may-be-uninit datum of another type
                let mut h = if later { vec![addu("x", U8), close(Simple)] } else { Vec::new() };
                h.push(add("p", ty));
                h.push(addu("q", U16));
                h.push(Step::Add { name: "w".to_owned(), ty, uninit: true, perturb: Perturb::default() });
                h.push(close(Simple));
                let mut m = ModuleSpec::new(format!("wit/{}/{}/uninit-not-copy-after-plain", ty.name(), pos), h);
                m.expect = Some("E0277".into());
                out.push(m);
            } else {
                let mut m = ModuleSpec::new(format!("wit/{}/{}/uninit-copy-twin", ty.name(), pos), history(ty, true, Perturb::default(), later));
                m.expect = Some("compiles".into());
                out.push(m);
            }
        }
    }
    out
}
