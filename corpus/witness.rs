//! Compile / compile-fail witnesses (C11) — filled in later.
use super::*;
pub fn specs(_thorough: bool) -> Vec<ModuleSpec> { Vec::new() }
