//! User types of the corpus. Shared (by `#[path]`) between the build script,
//! which needs their sizes and alignments, and the library, where the
//! generated modules name them as `crate::types::X`.
#![allow(dead_code)]

use serde::{Deserialize, Serialize};

/// size 12, align 4 (size not a power of two).
#[derive(Clone, Copy, Debug, PartialEq, Serialize, Deserialize)]
pub struct Odd12(pub u32, pub u32, pub u32);

/// size 24, align 8.
#[derive(Clone, Copy, Debug, PartialEq, Serialize, Deserialize)]
pub struct A24(pub u64, pub u64, pub u64);

/// size 16, align 16.
#[derive(Clone, Copy, Debug, PartialEq, Serialize, Deserialize)]
#[repr(align(16))]
pub struct Over16(pub u8);

/// size 32, align 32.
#[derive(Clone, Copy, Debug, PartialEq, Serialize, Deserialize)]
#[repr(align(32))]
pub struct Over32(pub u16);

/// Zero-size, align 1.
#[derive(Clone, Copy, Debug, PartialEq, Serialize, Deserialize)]
pub struct Zst;

/// Zero-size, align 8.
#[derive(Clone, Copy, Debug, PartialEq, Serialize, Deserialize)]
pub struct ZstA8(pub [u64; 0]);

/// A droppable enum that is not `Copy`.
#[derive(Clone, Debug, PartialEq, Serialize, Deserialize)]
pub enum Noisy {
    Quiet,
    Loud(String),
}

impl Drop for Noisy {
    fn drop(&mut self) {}
}

/// Neither `Send` nor `Sync`.
#[derive(Clone, Debug)]
pub struct NotSend(pub std::rc::Rc<u32>);

/// `Send` but not `Sync`.
#[derive(Clone, Debug)]
pub struct NotSync(pub std::cell::Cell<u32>);

/// Raw pointer: neither `Send` nor `Sync`, `Copy`.
#[derive(Clone, Copy, Debug)]
pub struct RawPtr(pub *const u8);

/// `Sync` but not `Send`.
#[derive(Clone, Copy, Debug)]
pub struct SyncNotSend(pub std::marker::PhantomData<*const ()>);
unsafe impl Sync for SyncNotSend {}

/// A droppable zero-size type.
#[derive(Clone, Debug, PartialEq, Serialize, Deserialize)]
pub struct ZstDrop;
impl Drop for ZstDrop {
    fn drop(&mut self) {}
}
