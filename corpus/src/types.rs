//! User types of the corpus. Shared (by `#[path]`) between the build script,
//! which needs their sizes and alignments, and the library, where the
//! generated modules name them as `crate::types::X`.
#![allow(dead_code)]

use serde::{Deserialize, Serialize};

/// size 12, align 4 (size not a power of two).
#[derive(Clone, Copy, Debug, PartialEq, Serialize, Deserialize)]
pub struct Odd12(pub u32, pub u32, pub u32);

/// size 24, align 8.
#[derive(Clone, Copy, Debug, PartialEq, Serialize, Deserialize)]
pub struct A24(pub u64, pub u64, pub u64);

/// size 16, align 16.
#[derive(Clone, Copy, Debug, PartialEq, Serialize, Deserialize)]
#[repr(align(16))]
pub struct Over16(pub u8);

/// size 32, align 32.
#[derive(Clone, Copy, Debug, PartialEq, Serialize, Deserialize)]
#[repr(align(32))]
pub struct Over32(pub u16);

/// Zero-size, align 1.
#[derive(Clone, Copy, Debug, PartialEq, Serialize, Deserialize)]
pub struct Zst;

/// Zero-size, align 8.
#[derive(Clone, Copy, Debug, PartialEq, Serialize, Deserialize)]
pub struct ZstA8(pub [u64; 0]);

/// A droppable enum that is not `Copy`.
#[derive(Clone, Debug, PartialEq, Serialize, Deserialize)]
pub enum Noisy {
    Quiet,
    Loud(String),
}

impl Drop for Noisy {
    fn drop(&mut self) {}
}

/// Neither `Send` nor `Sync`.
#[derive(Clone, Debug)]
pub struct NotSend(pub std::rc::Rc<u32>);

/// `Send` but not `Sync`.
#[derive(Clone, Debug)]
pub struct NotSync(pub std::cell::Cell<u32>);

/// Raw pointer: neither `Send` nor `Sync`, `Copy`.
#[derive(Clone, Copy, Debug)]
pub struct RawPtr(pub *const u8);

/// `Sync` but not `Send`.
#[derive(Clone, Copy, Debug)]
pub struct SyncNotSend(pub std::marker::PhantomData<*const ()>);
unsafe impl Sync for SyncNotSend {}

/// A droppable zero-size type.
#[derive(Clone, Debug, PartialEq, Serialize, Deserialize)]
pub struct ZstDrop;
impl Drop for ZstDrop {
    fn drop(&mut self) {}
}

/// `N` bytes, align 1 (sizes chosen by the adaptive corpus family).
#[derive(Clone, Copy, Debug, PartialEq)]
pub struct Blob<const N: usize>(pub [u8; N]);

/// `8 * N` bytes, align 8.
#[derive(Clone, Copy, Debug, PartialEq)]
pub struct Words<const N: usize>(pub [u64; N]);

/// Owns memory; `24 + 8 * N` bytes, align 8.
#[derive(Clone, Debug, PartialEq)]
pub struct Heavy<const N: usize>(pub String, pub [u64; N]);

macro_rules! serde_as_seq {
    ($t:ident, $elem:ty, |$v:ident| $items:expr, |$w:ident| $build:expr) => {
        impl<const N: usize> Serialize for $t<N> {
            fn serialize<S: serde::Serializer>(&self, s: S) -> Result<S::Ok, S::Error> {
                let $v = self;
                let items: $elem = $items;
                items.serialize(s)
            }
        }
        impl<'de, const N: usize> Deserialize<'de> for $t<N> {
            fn deserialize<D: serde::Deserializer<'de>>(d: D) -> Result<Self, D::Error> {
                let $w = <$elem>::deserialize(d)?;
                $build.ok_or_else(|| <D::Error as serde::de::Error>::custom("wrong length"))
            }
        }
    };
}
serde_as_seq!(Blob, Vec<u8>, |v| v.0.to_vec(), |w| <[u8; N]>::try_from(w).ok().map(Blob));
serde_as_seq!(Words, Vec<u64>, |v| v.0.to_vec(), |w| <[u64; N]>::try_from(w).ok().map(Words));
serde_as_seq!(Heavy, (String, Vec<u64>), |v| (v.0.clone(), v.1.to_vec()), |w| <[u64; N]>::try_from(w.1).ok().map(|a| Heavy(w.0, a)));
