//! Type-name probes (C17) — filled in later.
use super::*;
pub fn emit(_out: &PathBuf, _thorough: bool, _i: usize, _n: usize, _mods: &mut String, _index: &mut Vec<Value>) {}
