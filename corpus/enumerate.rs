//! Deterministic enumeration of record definition histories (DESIGN §2.4).
use super::*;

use Strategy::*;
use Ty::*;

fn f(i: usize) -> String {
    format!("f{}", i)
}

/// Types a generated module can always hold (all fragments apply).
const PLAIN: &[Ty] = &[U8, U16, U32, U64, U128, Usize, F64, Char, Bool, A3U8, A3U16, Unit];
const OWNING: &[Ty] = &[Str, BoxStr, VecU32, OptStr, ArrStr2, BoxBytes];
const USER: &[Ty] = &[Odd12, A24, Over16, Over32, Zst, ZstA8, ZstDrop, Noisy];
const THREAD: &[Ty] = &[NotSend, NotSync, RawPtr, SyncNotSend];

fn fragments(spec: ModuleSpec, out: &mut Vec<ModuleSpec>, all: bool) {
    let c = spec.can_clone();
    let s = spec.can_serde();
    if all {
        out.push(spec.clone());
        if c {
            let mut m = spec.clone().with(true, false);
            m.tag.push_str("+clone");
            out.push(m);
        }
        if s {
            let mut m = spec.clone().with(false, true);
            m.tag.push_str("+serde");
            out.push(m);
        }
        if c && s {
            let mut m = spec.clone().with(true, true);
            m.tag.push_str("+clone+serde");
            out.push(m);
        }
    } else {
        let mut m = spec.clone().with(c, s);
        if c {
            m.tag.push_str("+clone");
        }
        if s {
            m.tag.push_str("+serde");
        }
        out.push(m);
    }
}

/// H1: one variant, 0..4 fields.
fn h1(out: &mut Vec<ModuleSpec>, thorough: bool) {
    fragments(ModuleSpec::new("h1/empty", vec![close(Simple)]), out, true);
    let all: Vec<Ty> = PLAIN.iter().chain(OWNING).chain(USER).chain(THREAD).copied().collect();
    // every type alone, mandatory; every Copy type alone, may-be-uninit
    for (i, &t) in all.iter().enumerate() {
        let s = STRATEGIES[i % 4];
        fragments(
            ModuleSpec::new(format!("h1/one/{}", t.name()), vec![add("f0", t), close(s)]),
            out,
            thorough,
        );
        if t.is_copy() {
            fragments(
                ModuleSpec::new(format!("h1/one_uninit/{}", t.name()), vec![addu("f0", t), close(s)]),
                out,
                thorough,
            );
        }
    }
    // pairs and triples: rotate through the pool so that every type meets a
    // smaller-aligned predecessor (padding) and an owning neighbour
    let n = all.len();
    for i in 0..n {
        let a = all[i];
        let b = all[(i * 7 + 3) % n];
        let c = all[(i * 11 + 5) % n];
        let s = STRATEGIES[(i / 2) % 4];
        let mut h = vec![add("f0", U8)];
        h.push(if a.is_copy() && i % 2 == 0 { addu("f1", a) } else { add("f1", a) });
        h.push(add("f2", b));
        h.push(if c.is_copy() && i % 3 == 0 { addu("f3", c) } else { add("f3", c) });
        h.push(close(s));
        fragments(ModuleSpec::new(format!("h1/four/{}", i), h), out, false);
        if !thorough && i % 3 != 0 {
            out.pop();
        }
    }
    // names whose alphabetical order differs from id order
    fragments(
        ModuleSpec::new(
            "h1/name_order",
            vec![add("zeta", Str), addu("alpha", U32), add("mid", VecU32), addu("beta", U8), close(Simple)],
        ),
        out,
        true,
    );
    // only may-be-uninit fields
    fragments(
        ModuleSpec::new("h1/all_uninit", vec![addu("a", U64), addu("b", U8), addu("c", Odd12), close(Simple)]),
        out,
        true,
    );
}

/// Base layouts for H2/H3.
fn bases() -> Vec<(&'static str, Vec<(Ty, bool)>)> {
    vec![
        ("u32u32u64", vec![(U32, true), (U32, false), (U64, true)]),
        ("str_u8_vec", vec![(Str, false), (U8, true), (VecU32, false)]),
        ("u8_u64_u16_str", vec![(U8, false), (U64, true), (U16, true), (Str, false)]),
        ("odd_a24_bool", vec![(Odd12, true), (A24, false), (Bool, true)]),
        ("over16_u8_boxstr", vec![(Over16, false), (U8, true), (BoxStr, false)]),
        ("noisy_optstr_u128", vec![(Noisy, false), (OptStr, false), (U128, true)]),
        ("arrstr_zst_u16", vec![(ArrStr2, false), (Zst, true), (U16, false)]),
        ("a3u8_char_boxbytes", vec![(A3U8, true), (Char, false), (BoxBytes, false)]),
    ]
}

fn base_steps(fields: &[(Ty, bool)], prefix: &str) -> Vec<Step> {
    fields
        .iter()
        .enumerate()
        .map(|(i, &(t, u))| {
            let n = format!("{}{}", prefix, i);
            if u && t.is_copy() {
                addu(&n, t)
            } else {
                add(&n, t)
            }
        })
        .collect()
}

/// H2: two variants: add A; close; remove R ⊆ A; add B; close.
fn h2(out: &mut Vec<ModuleSpec>, thorough: bool) {
    let bases = bases();
    // which fields of A are removed
    let removals: &[&[usize]] = &[&[], &[0], &[1], &[2], &[0, 2], &[0, 1, 2]];
    // what is added back
    let additions: Vec<(&str, Vec<(Ty, bool)>)> = vec![
        ("none", vec![]),
        ("same_u32", vec![(U32, false)]),
        ("small_u8_str", vec![(U8, true), (Str, false)]),
        ("big_a24", vec![(A24, true)]),
        ("zst_u16", vec![(Zst, false), (U16, true)]),
        ("owning_vec_box", vec![(VecU32, false), (BoxStr, false)]),
        ("over16", vec![(Over16, true)]),
        ("uninit_only", vec![(U64, true), (Bool, true)]),
        ("zstdrop_noisy", vec![(ZstDrop, false), (Noisy, false)]),
    ];
    let mut k = 0usize;
    for (bi, (bname, base)) in bases.iter().enumerate() {
        for (ri, rem) in removals.iter().enumerate() {
            for (ai, (aname, adds)) in additions.iter().enumerate() {
                if rem.is_empty() && adds.is_empty() {
                    continue;
                }
                k += 1;
                // quick tier: a Latin-square style subset
                if !thorough && (bi + ri * 2 + ai * 3) % 7 != 0 {
                    continue;
                }
                let s1 = STRATEGIES[k % 4];
                let s2 = STRATEGIES[(k / 4) % 4];
                let mut h = base_steps(base, "a");
                h.push(close(s1));
                for &r in rem.iter() {
                    if r < base.len() {
                        h.push(rm(&format!("a{}", r)));
                    }
                }
                h.extend(base_steps(adds, "b"));
                h.push(close(s2));
                let r_s: Vec<String> = rem.iter().map(|r| r.to_string()).collect();
                fragments(
                    ModuleSpec::new(
                        format!("h2/{}/rm{}/{}/{}-{}", bname, r_s.join(""), aname, s1.name(), s2.name()),
                        h,
                    ),
                    out,
                    false,
                );
            }
        }
    }
}

/// H3: replace chains over 3..5 variants with every mixture of strategies (k ≤ 3).
fn h3(out: &mut Vec<ModuleSpec>, thorough: bool) {
    let mut idx = 0usize;
    for s0 in STRATEGIES {
        for s1 in STRATEGIES {
            for s2 in STRATEGIES {
                idx += 1;
                if !thorough && idx % 8 != 1 {
                    continue;
                }
                // v0: u8 str u32 ; v1: -str +u64(uninit) +boxstr ; v2: -u8 -u64 +u16 +noisy
                let h = vec![
                    addu("k0", U8),
                    add("k1", Str),
                    addu("k2", U32),
                    close(s0),
                    rm("k1"),
                    addu("k3", U64),
                    add("k4", BoxStr),
                    close(s1),
                    rm("k0"),
                    rm("k3"),
                    addu("k5", U16),
                    add("k6", Noisy),
                    close(s2),
                ];
                fragments(
                    ModuleSpec::new(format!("h3/chain3/{}-{}-{}", s0.name(), s1.name(), s2.name()), h),
                    out,
                    false,
                );
            }
        }
    }
    // five variants, a field that survives all of them, bytes reused twice
    for (i, s) in STRATEGIES.iter().enumerate() {
        let t = STRATEGIES[(i + 1) % 4];
        let h = vec![
            add("keep", Str),
            addu("x0", U32),
            addu("x1", U32),
            close(*s),
            rm("x0"),
            add("y0", A3U8),
            close(t),
            rm("x1"),
            addu("y1", U16),
            addu("y2", U16),
            close(*s),
            rm("y0"),
            rm("y1"),
            add("z0", VecU32),
            close(t),
            rm("y2"),
            rm("z0"),
            close(*s),
        ];
        fragments(ModuleSpec::new(format!("h3/five/{}-{}", s.name(), t.name()), h), out, i == 0);
    }
}

/// H4: special shapes.
fn h4(out: &mut Vec<ModuleSpec>, _thorough: bool) {
    // empty first variant, data later
    fragments(
        ModuleSpec::new("h4/empty_first", vec![close(Simple), add("a", Str), addu("b", U32), close(Simple)]),
        out,
        true,
    );
    // later variant becomes empty
    fragments(
        ModuleSpec::new(
            "h4/empty_later",
            vec![add("a", Str), addu("b", U32), close(Simple), rm("a"), rm("b"), close(Simple)],
        ),
        out,
        true,
    );
    // removal-only variant, in the middle
    fragments(
        ModuleSpec::new(
            "h4/removal_only",
            vec![
                add("a", Str),
                add("b", VecU32),
                addu("c", U64),
                close(Simple),
                rm("b"),
                close(Simple),
                add("d", BoxStr),
                close(Simple),
            ],
        ),
        out,
        true,
    );
    // variant made only of may-be-uninit additions
    fragments(
        ModuleSpec::new(
            "h4/uninit_additions",
            vec![add("a", Str), close(Simple), addu("b", U32), addu("c", U8), close(Simple)],
        ),
        out,
        true,
    );
    // datum added and removed again before its variant is closed (first and later variant)
    for s in STRATEGIES {
        fragments(
            ModuleSpec::new(
                format!("h4/pending_removed_first/{}", s.name()),
                vec![add("a", U32), add("ghost", U64), rm("ghost"), add("b", Str), close(s)],
            ),
            out,
            false,
        );
        // the withdrawn datum is not the most recent one: later data must not take its place in the order
        fragments(
            ModuleSpec::new(
                format!("h4/pending_removed_not_last/{}", s.name()),
                vec![
                    add("ghost", U64), add("a", U32), rm("ghost"), add("b", Str), close(s),
                    add("g2", U16), add("c", U8), add("d", Str), rm("g2"), add("e", U64), rm("a"), close(s),
                ],
            ),
            out,
            false,
        );
        fragments(
            ModuleSpec::new(
                format!("h4/pending_removed_later/{}", s.name()),
                vec![
                    add("a", U32),
                    close(s),
                    add("ghost", Str),
                    add("b", U16),
                    rm("ghost"),
                    close(s),
                ],
            ),
            out,
            false,
        );
    }
    // a withdrawn datum whose type cannot even be named from the including module: it is a field
    // of no variant, the generated module must not mention it
    for s in [Simple, Basic] {
        fragments(
            ModuleSpec::new(
                format!("h4/pending_removed_unnameable/{}", s.name()),
                vec![
                    add("a", U32),
                    add("ghost", NoSuchType),
                    rm("ghost"),
                    add("b", Str),
                    close(s),
                    addu("ghost2", NoSuchType),
                    add("c", U16),
                    rm("ghost2"),
                    close(s),
                ],
            ),
            out,
            false,
        );
    }
    // only a ghost in a later close: no pending change left, close is a no-op
    fragments(
        ModuleSpec::new(
            "h4/ghost_only",
            vec![add("a", U32), close(Simple), add("ghost", Str), rm("ghost"), close(Simple)],
        ),
        out,
        false,
    );
    // zero-size data in gaps (DESIGN §4 D8) with each follow-up strategy
    for s in STRATEGIES {
        fragments(
            ModuleSpec::new(
                format!("h4/zst_in_gap/{}", s.name()),
                vec![
                    addu("a", U32),
                    addu("b", U32),
                    addu("c", U64),
                    close(Append),
                    rm("b"),
                    addu("z", Unit),
                    close(Simple),
                    addu("d", U32),
                    close(Simple),
                    addu("e", U32),
                    close(s),
                ],
            ),
            out,
            false,
        );
        fragments(
            ModuleSpec::new(
                format!("h4/zst_a8_between/{}", s.name()),
                vec![
                    addu("a", U8),
                    addu("z", ZstA8),
                    add("zd", ZstDrop),
                    addu("b", U8),
                    close(s),
                    rm("a"),
                    addu("c", U16),
                    close(s),
                ],
            ),
            out,
            false,
        );
    }
    // over-aligned type introduced in the last variant only
    fragments(
        ModuleSpec::new(
            "h4/overaligned_last",
            vec![add("a", Str), addu("b", U8), close(Simple), addu("o", Over32), close(Simple)],
        ),
        out,
        true,
    );
    // over-aligned type removed before the end (alignment must still cover it)
    fragments(
        ModuleSpec::new(
            "h4/overaligned_removed",
            vec![addu("o", Over16), add("a", Str), close(Simple), rm("o"), addu("b", U8), close(Basic)],
        ),
        out,
        false,
    );
    // thread-safety shapes: a non-Send field in one variant only
    fragments(
        ModuleSpec::new(
            "h4/notsend_middle",
            vec![
                addu("a", U32),
                close(Simple),
                add("rc", NotSend),
                close(Simple),
                rm("rc"),
                add("s", Str),
                close(Simple),
            ],
        ),
        out,
        false,
    );
    fragments(
        ModuleSpec::new(
            "h4/thread_mix",
            vec![
                add("cell", NotSync),
                close(Simple),
                addu("p", RawPtr),
                close(Simple),
                rm("cell"),
                rm("p"),
                addu("sns", SyncNotSend),
                close(Simple),
            ],
        ),
        out,
        false,
    );
    // a name given up and taken again in the same step, by a datum of another type / of the same type
    for s in STRATEGIES {
        fragments(
            ModuleSpec::new(
                format!("h4/name_reuse_type_change/{}", s.name()),
                vec![
                    add("label", Str),
                    addu("n", U32),
                    add("keep", VecU32),
                    close(s),
                    rm("label"),
                    add("label", BoxStr),
                    rm("n"),
                    addu("n", U64),
                    close(s),
                ],
            ),
            out,
            false,
        );
        fragments(
            ModuleSpec::new(
                format!("h4/name_reuse_same_type/{}", s.name()),
                vec![
                    add("label", Str),
                    addu("n", U32),
                    close(s),
                    rm("label"),
                    add("label", Str),
                    rm("n"),
                    addu("n", U32),
                    add("extra", Noisy),
                    close(s),
                    rm("label"),
                    add("label", Noisy),
                    close(s),
                ],
            ),
            out,
            false,
        );
    }
    // wide records (thresholds on the number of data or on the extent), and a later step adding
    // several mandatory data of one type
    for (n, s) in [(17usize, Simple), (20, Basic), (33, Simple)] {
        let tys = [U32, Str, U8, U64, Bool, VecU32, U16, Char];
        let mut h = Vec::new();
        for i in 0..n {
            let t = tys[i % tys.len()];
            h.push(if t.is_copy() && i % 3 != 0 { addu(&f(i), t) } else { add(&f(i), t) });
        }
        h.push(close(s));
        h.push(rm(&f(1)));
        h.push(add("late", BoxStr));
        h.push(close(s));
        fragments(ModuleSpec::new(format!("h4/wide{}/{}", n, s.name()), h), out, false);
    }
    for s in [Simple, Basic] {
        fragments(
            ModuleSpec::new(
                format!("h4/same_type_run/{}", s.name()),
                vec![
                    add("first", Str),
                    add("middle", Str),
                    add("last", Str),
                    add("n0", U64),
                    add("n1", U64),
                    add("n2", U64),
                    addu("flag", Bool),
                    close(s),
                    rm("middle"),
                    add("x0", Str),
                    add("x1", Str),
                    add("x2", Str),
                    add("x3", Str),
                    addu("y", U32),
                    add("m0", U64),
                    add("m1", U64),
                    add("m2", U64),
                    close(s),
                ],
            ),
            out,
            false,
        );
    }
    // the repository's README definition
    fragments(
        ModuleSpec::new(
            "h4/readme",
            vec![
                addu("integer", Usize),
                add("string", Str),
                close(Simple),
                rm("integer"),
                addu("signed_integer", U64),
                close(Simple),
            ],
        ),
        out,
        true,
    );
    // the fibonacci example
    fragments(
        ModuleSpec::new(
            "h4/fibonacci",
            vec![
                addu("fibo_iter", Usize),
                close(Simple),
                addu("fibo_rounding", Usize),
                close(Simple),
                rm("fibo_iter"),
                rm("fibo_rounding"),
                addu("ok", Bool),
                add("msg", Str),
                close(Simple),
            ],
        ),
        out,
        false,
    );
    // wide record: many fields, remove every other one, refill
    {
        let mut h = Vec::new();
        let tys = [U8, Str, U16, VecU32, U32, BoxStr, U64, OptStr, Odd12, Noisy, A3U8, ArrStr2];
        for (i, t) in tys.iter().enumerate() {
            h.push(if t.is_copy() { addu(&f(i), *t) } else { add(&f(i), *t) });
        }
        h.push(close(Simple));
        for i in (0..tys.len()).step_by(2) {
            h.push(rm(&f(i)));
        }
        for (i, t) in [U16, U16, U8, Str, A24, U32].iter().enumerate() {
            h.push(if t.is_copy() && i % 2 == 0 { addu(&f(100 + i), *t) } else { add(&f(100 + i), *t) });
        }
        h.push(close(Simple));
        for i in (1..tys.len()).step_by(4) {
            h.push(rm(&f(i)));
        }
        h.push(add("tail", BoxBytes));
        h.push(close(Basic));
        fragments(ModuleSpec::new("h4/wide", h), out, true);
    }
}

/// H5: zero-size data around holes: a zero-size datum at every list position of a
/// [u32, u32, u64] base, one sized datum removed, the hole refilled, then one more close
/// (order mistakes of a close surface as overlaps or rendering panics in the next one).
fn h5(out: &mut Vec<ModuleSpec>, thorough: bool) {
    let zsts = [Unit, ZstA8, ZstDrop];
    let mut k = 0usize;
    for zpos in 0..4usize {
        for removed in 0..3usize {
            for (i1, s1) in [Append, Simple, AppendReverse].iter().enumerate() {
                for (i2, s2) in STRATEGIES.iter().enumerate() {
                    for (i3, s3) in [Simple, Basic].iter().enumerate() {
                        k += 1;
                        if !thorough && (zpos * 5 + removed * 3 + i1 * 7 + i2 * 2 + i3) % 11 != 0 {
                            continue;
                        }
                        let z = zsts[k % 3];
                        let sized = [U32, U32, U64];
                        let mut h = Vec::new();
                        let mut si = 0;
                        for pos in 0..4 {
                            if pos == zpos {
                                h.push(if z.is_copy() { addu("z", z) } else { add("z", z) });
                            } else {
                                h.push(addu(&format!("s{}", si), sized[si]));
                                si += 1;
                            }
                        }
                        h.push(close(*s1));
                        h.push(rm(&format!("s{}", removed)));
                        h.push(addu("d", if k % 2 == 0 { U32 } else { U16 }));
                        h.push(close(*s2));
                        h.push(addu("e", U16));
                        h.push(add("f", Str));
                        h.push(close(*s3));
                        fragments(
                            ModuleSpec::new(
                                format!("h5/z{}@{}/rm{}/{}-{}-{}", z.name(), zpos, removed, s1.name(), s2.name(), s3.name()),
                                h,
                            ),
                            out,
                            false,
                        );
                    }
                }
            }
        }
    }
}

/// Seeded random histories: ≤ 6 variants, ≤ 8 live fields.
fn random(out: &mut Vec<ModuleSpec>, n: usize, seed: u64) {
    let pool: Vec<Ty> = PLAIN.iter().chain(OWNING).chain(USER).copied().collect();
    let mut rng = Rng::new(seed);
    for m in 0..n {
        let variants = 1 + rng.below(6);
        let mut live: Vec<String> = Vec::new();
        let mut h = Vec::new();
        let mut next = 0usize;
        for v in 0..variants {
            let mut pending: Vec<String> = Vec::new();
            let mut freed: Vec<String> = Vec::new();
            // removals of closed data
            if v > 0 {
                let mut i = 0;
                while i < live.len() {
                    if rng.chance(2, 5) {
                        let n = live.remove(i);
                        h.push(rm(&n));
                        freed.push(n);
                    } else {
                        i += 1;
                    }
                }
            }
            let adds = rng.below(4) + if v == 0 { 1 } else { 0 };
            for _ in 0..adds {
                if live.len() + pending.len() >= 8 {
                    break;
                }
                let t = rng.pick(&pool);
                // sometimes take a name that was just given up
                let n = if !freed.is_empty() && rng.chance(1, 4) {
                    freed.pop().unwrap()
                } else {
                    next += 1;
                    format!("r{}", next - 1)
                };
                h.push(if t.is_copy() && rng.chance(1, 2) { addu(&n, t) } else { add(&n, t) });
                pending.push(n);
                // occasionally withdraw a pending datum (sentinel offset)
                if rng.chance(1, 12) {
                    let g = pending.pop().unwrap();
                    h.push(rm(&g));
                }
            }
            live.extend(pending);
            h.push(close(rng.pick(&STRATEGIES)));
        }
        fragments(ModuleSpec::new(format!("rnd/{}/{}", seed, m), h), out, false);
    }
}

/// H6: placement stress. Dense bases, runs of removals that open holes of many sizes and
/// alignments, refills with data whose size is not their alignment, one more close afterwards
/// (a placement slip of one close shows as an overlap there or in the next one).
fn holes(out: &mut Vec<ModuleSpec>, n: usize, seed: u64) {
    let sized: [Ty; 14] = [U8, U16, U32, U64, U128, A3U8, A3U16, Odd12, A24, Str, Char, Bool, F64, Over16];
    let mut rng = Rng::new(seed ^ 0x5eed_4013);
    for m in 0..n {
        let mut h = Vec::new();
        let base_len = 4 + rng.below(5);
        let mut live: Vec<String> = Vec::new();
        for i in 0..base_len {
            let t = rng.pick(&sized);
            let nme = format!("b{}", i);
            h.push(if t.is_copy() && rng.chance(1, 2) { addu(&nme, t) } else { add(&nme, t) });
            live.push(nme);
        }
        h.push(close(if rng.chance(1, 2) { Append } else { rng.pick(&STRATEGIES) }));
        let rounds = 2 + rng.below(2);
        let mut next = 0usize;
        for r in 0..rounds {
            // remove a contiguous run (in declaration order) and sometimes one more
            if !live.is_empty() {
                let start = rng.below(live.len());
                let len = 1 + rng.below(3.min(live.len() - start));
                for _ in 0..len {
                    let nme = live.remove(start);
                    h.push(rm(&nme));
                }
                if live.len() > 2 && rng.chance(1, 3) {
                    let i = rng.below(live.len());
                    h.push(rm(&live.remove(i)));
                }
            }
            let adds = 1 + rng.below(if r == 0 { 4 } else { 2 });
            for _ in 0..adds {
                let t = rng.pick(&sized);
                let nme = format!("n{}", next);
                next += 1;
                h.push(if t.is_copy() && rng.chance(1, 2) { addu(&nme, t) } else { add(&nme, t) });
                live.push(nme);
            }
            h.push(close(if rng.chance(1, 2) { Simple } else { Basic }));
        }
        fragments(ModuleSpec::new(format!("h6/{}/{}", seed, m), h), out, false);
    }
}

/// Adaptive family: the orchestrator found comparisons against these integer constants in the
/// generator / strategies / runtime; build records whose number of data and byte extent straddle each.
pub fn adaptive(thresholds: &[usize]) -> Vec<ModuleSpec> {
    let mut out = Vec::new();
    for &n in thresholds {
        if !(2..=300).contains(&n) {
            continue;
        }
        for count in [n - 1, n, n + 1] {
            for (label, s) in [("simple", Simple), ("basic", Basic)] {
                // alternating small may-be-uninit data and mandatory owning data
                let mut h = Vec::new();
                for i in 0..count {
                    h.push(match i % 4 {
                        0 => add(&f(i), Str),
                        1 => addu(&f(i), U8),
                        2 => add(&f(i), U32),
                        _ => addu(&f(i), U16),
                    });
                }
                h.push(close(s));
                h.push(rm(&f(0)));
                h.push(add("late", VecU32));
                h.push(close(s));
                fragments(ModuleSpec::new(format!("adaptive/count{}/{}/{}", n, count, label), h), &mut out, false);
            }
            // byte extent: one byte per datum (all plain), then one owning datum, then both mixed
            let mut h = Vec::new();
            for i in 0..count {
                h.push(if i % 2 == 0 { addu(&f(i), U8) } else { add(&f(i), U8) });
            }
            h.push(close(Append));
            h.push(add("tail", Str));
            h.push(close(Simple));
            fragments(ModuleSpec::new(format!("adaptive/extent{}/{}", n, count), h), &mut out, false);
            if count > 24 {
                let mut h = vec![add("head", Str)];
                for i in 0..(count - 24) {
                    h.push(addu(&f(i), U8));
                }
                h.push(close(Append));
                h.push(rm(&f(0)));
                h.push(add("x", Noisy));
                h.push(close(Simple));
                fragments(ModuleSpec::new(format!("adaptive/extent{}/{}+owning", n, count), h), &mut out, false);
            }
        }
        // a step that removes / adds about N data at once (batch paths of the builders and strategies)
        for k in [n - 1, n, n + 1] {
            if k == 0 || k > 150 {
                continue;
            }
            for (label, s) in [("simple", Simple), ("basic", Basic), ("append", Append)] {
                let base = k + 4;
                let tys = [U8, U64, U16, Str, U32, U8, VecU32, U16];
                let mut h = Vec::new();
                for i in 0..base {
                    let ty = tys[i % tys.len()];
                    h.push(if ty.is_copy() && i % 3 == 0 { addu(&f(i), ty) } else { add(&f(i), ty) });
                }
                h.push(close(s));
                // removals requested in an order that is neither the insertion nor the address order
                let mut victims: Vec<usize> = (0..base).filter(|i| i % (base / k.min(base - 1)).max(1) == 0).take(k).collect();
                let mut i = 0;
                while victims.len() < k {
                    if !victims.contains(&i) {
                        victims.push(i);
                    }
                    i += 1;
                }
                victims.reverse();
                for v in &victims {
                    h.push(rm(&f(*v)));
                }
                h.push(add("n0", U64));
                h.push(add("n1", Str));
                h.push(addu("n2", U16));
                h.push(close(s));
                h.push(add("late", U32));
                h.push(close(Simple));
                fragments(ModuleSpec::new(format!("adaptive/remove{}/{}/{}", n, k, label), h), &mut out, false);
            }
            let mut h = vec![add("k0", Str), addu("k1", U8), close(Simple)];
            for i in 0..k {
                let tys = [U16, U64, U8, Str, U32];
                h.push(add(&f(i), tys[i % tys.len()]));
            }
            h.push(rm("k1"));
            h.push(close(Simple));
            fragments(ModuleSpec::new(format!("adaptive/add{}/{}", n, k), h), &mut out, false);
        }
        // a datum of about N bytes: carried, removed with its bytes re-used, added over freed bytes
        if n >= 4 {
            let mut big: Vec<Ty> = vec![Blob(n - 1), Blob(n), Blob(n + 1)];
            for w in [n / 8, n / 8 + 1] {
                if w >= 1 && n / 8 >= 1 {
                    big.push(Words(w));
                }
            }
            if n >= 32 {
                for w in [(n - 24) / 8, (n - 24) / 8 + 1] {
                    big.push(Heavy(w));
                }
            }
            for (bi, b) in big.iter().enumerate() {
                let uninit_ok = b.is_copy();
                let mk = |name: &str, u: bool| if u && uninit_ok { addu(name, *b) } else { add(name, *b) };
                // removed, bytes re-used by several smaller data
                let h = vec![
                    add("tag", U64), mk("blob", false), add("s", Str), addu("small", U16), close(Simple),
                    rm("blob"), add("p", U64), add("q", Str), addu("r", U32), close(Simple),
                    rm("p"), add("late", U16), close(Simple),
                ];
                fragments(ModuleSpec::new(format!("adaptive/size{}/{}/removed", n, bi), h), &mut out, false);
                // may be uninitialised, next to narrower may-be-uninitialised data; added in a later step over freed bytes
                let h = vec![
                    add("s", Str), addu("a", U8), mk("blob", true), addu("b", U32), add("v", VecU32), close(Basic),
                    rm("v"), rm("a"), mk("blob2", true), add("w", Str), close(Simple),
                    rm("blob"), add("late", U64), close(Basic),
                ];
                fragments(ModuleSpec::new(format!("adaptive/size{}/{}/uninit+added", n, bi), h), &mut out, false);
            }
        }
    }
    out
}

/// Definition-only histories with data whose size is not a multiple of their alignment (a foreign type
/// table or an override can say so): holes of equal size so that several placements tie.
fn odd_shapes(out: &mut Vec<ModuleSpec>) {
    let shapes = [(4, 8), (4, 16), (2, 4), (6, 4), (12, 8), (1, 2), (0, 8), (0, 16), (20, 16), (3, 2), (8, 16), (24, 16)];
    for (si, &(size, align)) in shapes.iter().enumerate() {
        for (label, s) in [("simple", Simple), ("basic", Basic), ("append", Append)] {
            for holes_at in [1usize, 2] {
                // twelve 8-byte (then 16-byte) slots, every `holes_at + 1`-th one freed
                let unit = if size > 8 { Over16 } else { U64 };
                let mut h = Vec::new();
                for i in 0..12 {
                    h.push(add(&f(i), unit));
                }
                h.push(close(Append));
                for i in (1..12).step_by(holes_at + 1) {
                    h.push(rm(&f(i)));
                }
                h.push(add("odd", Shape(size, align)));
                h.push(add("pad", U32));
                h.push(close(s));
                h.push(rm(&f(0)));
                h.push(add("odd2", Shape(size, align)));
                h.push(addu("tiny", U8));
                h.push(close(s));
                let mut m = ModuleSpec::new(format!("odd/{}x{}/{}/{}", size, align, label, holes_at), h);
                m.definition_only = true;
                let _ = si;
                out.push(m);
            }
            // equal holes made of runs of freed small slots: wider than the alignment, so that an aligned
            // place exists inside each of them and several holes tie
            for (ui, unit) in [U32, U16, U64].into_iter().enumerate() {
                for runs in [2usize, 3] {
                    let mut h = Vec::new();
                    let n = 8 * runs + 2;
                    for i in 0..n {
                        h.push(add(&f(i), unit));
                    }
                    h.push(close(Append));
                    for r in 0..runs {
                        for i in (8 * r + 2)..=(8 * r + 6) {
                            h.push(rm(&f(i)));
                        }
                    }
                    h.push(add("odd", Shape(size, align)));
                    h.push(close(s));
                    h.push(add("odd2", Shape(size, align)));
                    h.push(add("pad", U16));
                    h.push(close(s));
                    let mut m = ModuleSpec::new(format!("odd/{}x{}/{}/runs{}x{}", size, align, label, runs, ui), h);
                    m.definition_only = true;
                    out.push(m);
                }
            }
        }
    }
}

pub fn specs(thorough: bool, seed: u64) -> Vec<ModuleSpec> {
    let mut out = Vec::new();
    h1(&mut out, thorough);
    h2(&mut out, thorough);
    h3(&mut out, thorough);
    h4(&mut out, thorough);
    h5(&mut out, thorough);
    odd_shapes(&mut out);
    holes(&mut out, if thorough { 300 } else { 120 }, 7);
    if thorough {
        holes(&mut out, 1800, seed.wrapping_add(77));
    }
    // the quick tier's random extension is pinned; the thorough one follows VERIF_SEED
    random(&mut out, if thorough { 80 } else { 16 }, 1);
    if thorough {
        random(&mut out, 1500, seed.wrapping_add(1000));
    }
    out
}
