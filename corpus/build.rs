//! Corpus build script: enumerates record definition histories, runs /repo's
//! *current* builder and generator on them, and writes one `mNNNN.rs` per
//! history plus a JSON sidecar built only through truc's public read API.
//!
//! Environment (all optional):
//!   VERIF_TIER    quick | thorough             (default quick)
//!   VERIF_SEED    integer seed for the random extension (default 1)
//!   CORPUS_SHARD  "i/n": keep modules whose index % n == i
//!   CORPUS_KIND   main | witness | names       (default main)
#![allow(dead_code)]

use std::{
    collections::BTreeMap,
    env,
    fmt::Write as _,
    fs,
    panic::{catch_unwind, AssertUnwindSafe},
    path::PathBuf,
};

use serde_json::{json, Value};
use truc::{
    generator::{
        config::GeneratorConfig,
        fragment::{clone::CloneImplGenerator, serde::SerdeImplGenerator, FragmentGenerator},
        generate,
    },
    record::{
        definition::{
            builder::native::{
                variant::{append_data, append_data_reverse, basic, simple},
                DatumDefinitionOverride, NativeRecordDefinitionBuilder,
            },
            DatumId, NativeDatumDetails, RecordDefinition,
        },
        type_resolver::{HostTypeResolver, TypeResolver},
    },
};

#[path = "src/types.rs"]
mod types;

mod witness;

// --------------------------------------------------------------------------
// type pool

macro_rules! uninit_add {
    (true, $ty:ty, $b:expr, $name:expr) => {
        $b.add_datum_allow_uninit::<$ty, _>($name)
    };
    (false, $ty:ty, $b:expr, $name:expr) => {
        add_uninit::<$ty, _>($b, $name)
    };
}

macro_rules! pool {
    ($( $id:ident : $ty:ty => $name:expr, copy=$copy:tt, clone=$clone:expr, serde=$serde:expr, user=$user:expr; )*) => {
        #[derive(Clone, Copy, PartialEq, Eq, PartialOrd, Ord, Debug)]
        pub enum Ty {
            $($id,)*
            /// `crate::types::Blob<N>`: N bytes, align 1, `Copy` (adaptive family only).
            Blob(usize),
            /// `crate::types::Words<N>`: N × 8 bytes, align 8, `Copy`.
            Words(usize),
            /// `crate::types::Heavy<N>`: a `String` plus N × 8 bytes, align 8, owns memory.
            Heavy(usize),
            /// A datum of arbitrary (size, alignment) as a foreign type table or an override can describe
            /// it, e.g. size 4 / align 16. No Rust type has such a layout: definition-only histories.
            Shape(usize, usize),
        }

        pub const ALL_TYPES: &[Ty] = &[$(Ty::$id),*];

        fn leak(s: String) -> &'static str { Box::leak(s.into_boxed_str()) }

        impl Ty {
            pub fn name(self) -> &'static str { match self { $(Ty::$id => $name,)*
                Ty::Blob(n) => leak(format!("crate::types::Blob<{}>", n)),
                Ty::Words(n) => leak(format!("crate::types::Words<{}>", n)),
                Ty::Heavy(n) => leak(format!("crate::types::Heavy<{}>", n)),
                Ty::Shape(s, a) => leak(format!("crate::types::Shape<{}, {}>", s, a)),
            } }
            pub fn is_copy(self) -> bool { match self { $(Ty::$id => $copy,)* Ty::Blob(_) | Ty::Words(_) | Ty::Shape(..) => true, Ty::Heavy(_) => false } }
            pub fn is_clone(self) -> bool { match self { $(Ty::$id => $clone,)* _ => true } }
            pub fn is_serde(self) -> bool { match self { $(Ty::$id => $serde,)* _ => true } }
            pub fn is_user(self) -> bool { match self { $(Ty::$id => $user,)* _ => true } }
            pub fn size(self) -> usize { match self { $(Ty::$id => std::mem::size_of::<$ty>(),)*
                Ty::Blob(n) => n, Ty::Words(n) => 8 * n, Ty::Heavy(n) => std::mem::size_of::<String>() + 8 * n, Ty::Shape(s, _) => s } }
            pub fn align(self) -> usize { match self { $(Ty::$id => std::mem::align_of::<$ty>(),)*
                Ty::Blob(_) => 1, Ty::Words(_) | Ty::Heavy(_) => 8, Ty::Shape(_, a) => a } }
            pub fn needs_drop(self) -> bool { match self { $(Ty::$id => std::mem::needs_drop::<$ty>(),)*
                Ty::Blob(_) | Ty::Words(_) | Ty::Shape(..) => false, Ty::Heavy(_) => true } }

            /// Adds a datum of this type through the entry point that suits it.
            pub fn add<R: TypeResolver>(
                self,
                b: &mut NativeRecordDefinitionBuilder<R>,
                name: &str,
                uninit: bool,
                ov: &Perturb,
            ) -> Result<DatumId, String> {
                match self { $(Ty::$id => {
                    if $user || ov.any() {
                        let mut size = None;
                        let mut align = None;
                        if let Some(f) = ov.size { size = Some(f(std::mem::size_of::<$ty>())); }
                        if let Some(f) = ov.align { align = Some(f(std::mem::align_of::<$ty>())); }
                        b.add_datum_override::<$ty, _>(name, DatumDefinitionOverride {
                            type_name: Some($name.to_owned()),
                            size,
                            align,
                            allow_uninit: Some(uninit),
                        })
                    } else if uninit {
                        uninit_add!($copy, $ty, b, name)
                    } else {
                        b.add_datum::<$ty, _>(name)
                    }
                },)*
                // const-generic user types of a size chosen at run time: everything the builder
                // needs is given explicitly (rustc's own layout of the named type is what the
                // generated assertions and the analyser compare against).
                Ty::Blob(_) | Ty::Words(_) | Ty::Heavy(_) | Ty::Shape(..) => {
                    let mut size = self.size();
                    let mut align = self.align();
                    if let Some(f) = ov.size { size = f(size); }
                    if let Some(f) = ov.align { align = f(align); }
                    b.add_datum_override::<u8, _>(name, DatumDefinitionOverride {
                        type_name: Some(self.name().to_owned()),
                        size: Some(size),
                        align: Some(align),
                        allow_uninit: Some(uninit),
                    })
                }
                }
            }
        }
    };
}

/// `add_datum_allow_uninit` requires `T: Copy` at compile time; non-Copy pool
/// types flagged uninit go through the override entry point instead (this is
/// how a user gets the flag wrong: C11's third clause).
fn add_uninit<T, R: TypeResolver>(
    b: &mut NativeRecordDefinitionBuilder<R>,
    name: &str,
) -> Result<DatumId, String> {
    b.add_datum_override::<T, _>(
        name,
        DatumDefinitionOverride {
            type_name: None,
            size: None,
            align: None,
            allow_uninit: Some(true),
        },
    )
}

#[derive(Clone, Copy, Default)]
pub struct Perturb {
    pub size: Option<fn(usize) -> usize>,
    pub align: Option<fn(usize) -> usize>,
}
impl Perturb {
    fn any(&self) -> bool {
        self.size.is_some() || self.align.is_some()
    }
}

pool! {
    U8: u8 => "u8", copy=true, clone=true, serde=true, user=false;
    U16: u16 => "u16", copy=true, clone=true, serde=true, user=false;
    U32: u32 => "u32", copy=true, clone=true, serde=true, user=false;
    U64: u64 => "u64", copy=true, clone=true, serde=true, user=false;
    U128: u128 => "u128", copy=true, clone=true, serde=true, user=false;
    Usize: usize => "usize", copy=true, clone=true, serde=true, user=false;
    F64: f64 => "f64", copy=true, clone=true, serde=true, user=false;
    Char: char => "char", copy=true, clone=true, serde=true, user=false;
    Bool: bool => "bool", copy=true, clone=true, serde=true, user=false;
    A3U8: [u8; 3] => "[u8 ; 3]", copy=true, clone=true, serde=true, user=false;
    A3U16: [u16; 3] => "[u16 ; 3]", copy=true, clone=true, serde=true, user=false;
    Unit: () => "()", copy=true, clone=true, serde=true, user=false;
    Str: String => "String", copy=false, clone=true, serde=true, user=false;
    BoxStr: Box<str> => "Box < str >", copy=false, clone=true, serde=true, user=false;
    VecU32: Vec<u32> => "Vec < u32 >", copy=false, clone=true, serde=true, user=false;
    OptStr: Option<String> => "Option < String >", copy=false, clone=true, serde=true, user=false;
    ArrStr2: [String; 2] => "[String ; 2]", copy=false, clone=true, serde=true, user=false;
    BoxBytes: Box<[u8]> => "Box < [u8] >", copy=false, clone=true, serde=true, user=false;
    Odd12: types::Odd12 => "crate::types::Odd12", copy=true, clone=true, serde=true, user=true;
    A24: types::A24 => "crate::types::A24", copy=true, clone=true, serde=true, user=true;
    Over16: types::Over16 => "crate::types::Over16", copy=true, clone=true, serde=true, user=true;
    Over32: types::Over32 => "crate::types::Over32", copy=true, clone=true, serde=true, user=true;
    Zst: types::Zst => "crate::types::Zst", copy=true, clone=true, serde=true, user=true;
    ZstA8: types::ZstA8 => "crate::types::ZstA8", copy=true, clone=true, serde=true, user=true;
    ZstDrop: types::ZstDrop => "crate::types::ZstDrop", copy=false, clone=true, serde=true, user=true;
    Noisy: types::Noisy => "crate::types::Noisy", copy=false, clone=true, serde=true, user=true;
    NotSend: types::NotSend => "crate::types::NotSend", copy=false, clone=true, serde=false, user=true;
    NotSync: types::NotSync => "crate::types::NotSync", copy=false, clone=true, serde=false, user=true;
    RawPtr: types::RawPtr => "crate::types::RawPtr", copy=true, clone=true, serde=false, user=true;
    SyncNotSend: types::SyncNotSend => "crate::types::SyncNotSend", copy=true, clone=true, serde=false, user=true;
    NoSuchType: u64 => "crate::types::NoSuchTypeAnywhere", copy=true, clone=true, serde=true, user=true;
}

// --------------------------------------------------------------------------
// histories

#[derive(Clone, Copy, PartialEq, Eq, Debug)]
pub enum Strategy {
    Simple,
    Basic,
    Append,
    AppendReverse,
}
pub const STRATEGIES: [Strategy; 4] =
    [Strategy::Simple, Strategy::Basic, Strategy::Append, Strategy::AppendReverse];

impl Strategy {
    fn name(self) -> &'static str {
        match self {
            Strategy::Simple => "simple",
            Strategy::Basic => "basic",
            Strategy::Append => "append_data",
            Strategy::AppendReverse => "append_data_reverse",
        }
    }
}

#[derive(Clone)]
pub enum Step {
    Add { name: String, ty: Ty, uninit: bool, perturb: Perturb },
    Remove { name: String },
    Close(Strategy),
}

pub fn add(name: &str, ty: Ty) -> Step {
    Step::Add { name: name.to_owned(), ty, uninit: false, perturb: Perturb::default() }
}
pub fn addu(name: &str, ty: Ty) -> Step {
    Step::Add { name: name.to_owned(), ty, uninit: true, perturb: Perturb::default() }
}
pub fn rm(name: &str) -> Step {
    Step::Remove { name: name.to_owned() }
}
pub fn close(s: Strategy) -> Step {
    Step::Close(s)
}

impl Step {
    fn to_json(&self) -> Value {
        match self {
            Step::Add { name, ty, uninit, perturb } => json!({
                "op": "add", "name": name, "ty": ty.name(), "uninit": uninit,
                "perturbed": perturb.any(),
            }),
            Step::Remove { name } => json!({"op": "remove", "name": name}),
            Step::Close(s) => json!({"op": "close", "strategy": s.name()}),
        }
    }
}

#[derive(Clone)]
pub struct ModuleSpec {
    pub tag: String,
    pub history: Vec<Step>,
    pub clone: bool,
    pub serde: bool,
    /// Expected outcome for witness modules ("compiles" | "E0080" | "E0277"), informational.
    pub expect: Option<String>,
    /// Only the definition is recorded (shapes no Rust type has: the module is never compiled).
    pub definition_only: bool,
}

impl ModuleSpec {
    pub fn new(tag: impl Into<String>, history: Vec<Step>) -> Self {
        Self { tag: tag.into(), history, clone: false, serde: false, expect: None, definition_only: false }
    }
    pub fn with(mut self, clone: bool, serde: bool) -> Self {
        self.clone = clone;
        self.serde = serde;
        self
    }
    fn types(&self) -> Vec<Ty> {
        self.history
            .iter()
            .filter_map(|s| if let Step::Add { ty, .. } = s { Some(*ty) } else { None })
            .collect()
    }
    pub fn can_clone(&self) -> bool {
        self.types().iter().all(|t| t.is_clone())
    }
    pub fn can_serde(&self) -> bool {
        self.types().iter().all(|t| t.is_serde())
    }
}

pub fn run_history(
    history: &[Step],
) -> Result<RecordDefinition<NativeDatumDetails>, String> {
    let r = catch_unwind(AssertUnwindSafe(|| {
        let mut b = NativeRecordDefinitionBuilder::new(HostTypeResolver);
        let mut ids: BTreeMap<String, DatumId> = BTreeMap::new();
        for step in history {
            match step {
                Step::Add { name, ty, uninit, perturb } => {
                    let id = ty
                        .add(&mut b, name, *uninit, perturb)
                        .unwrap_or_else(|e| panic!("add {} rejected: {}", name, e));
                    ids.insert(name.clone(), id);
                }
                Step::Remove { name } => {
                    let id = ids.remove(name).unwrap_or_else(|| panic!("corpus bug: {}", name));
                    b.remove_datum(id).unwrap_or_else(|e| panic!("remove {} rejected: {}", name, e));
                }
                Step::Close(s) => {
                    match s {
                        Strategy::Simple => b.close_record_variant_with(simple),
                        Strategy::Basic => b.close_record_variant_with(basic),
                        Strategy::Append => b.close_record_variant_with(append_data),
                        Strategy::AppendReverse => b.close_record_variant_with(append_data_reverse),
                    };
                }
            }
        }
        b.build()
    }));
    r.map_err(panic_msg)
}

fn panic_msg(e: Box<dyn std::any::Any + Send>) -> String {
    if let Some(s) = e.downcast_ref::<String>() {
        s.clone()
    } else if let Some(s) = e.downcast_ref::<&str>() {
        (*s).to_owned()
    } else {
        "<non-string panic>".to_owned()
    }
}

fn config(clone: bool, serde: bool) -> GeneratorConfig {
    let mut custom: Vec<Box<dyn FragmentGenerator>> = Vec::new();
    if clone {
        custom.push(Box::new(CloneImplGenerator));
    }
    if serde {
        custom.push(Box::new(SerdeImplGenerator));
    }
    GeneratorConfig::default_with_custom_generators(custom)
}

fn sidecar(def: &RecordDefinition<NativeDatumDetails>) -> Value {
    let data: Vec<Value> = def
        .datum_definitions()
        .map(|d| {
            json!({
                "id": d.id().to_string().parse::<usize>().unwrap(),
                "name": d.name(),
                "type_name": d.details().type_name(),
                "size": d.details().size(),
                "align": d.details().type_align(),
                "offset": if d.details().offset() == usize::MAX { Value::Null } else { json!(d.details().offset()) },
                "allow_uninit": d.details().allow_uninit(),
            })
        })
        .collect();
    let variants: Vec<Value> = def
        .variants()
        .map(|v| {
            json!({
                "id": v.id().to_string().parse::<usize>().unwrap(),
                "data": v.data().map(|d| d.to_string().parse::<usize>().unwrap()).collect::<Vec<_>>(),
            })
        })
        .collect();
    json!({"data": data, "variants": variants})
}

// --------------------------------------------------------------------------
// deterministic pseudo random numbers (xorshift64*), no crates needed

pub struct Rng(u64);
impl Rng {
    pub fn new(seed: u64) -> Self {
        Rng(seed.wrapping_mul(0x9E3779B97F4A7C15) | 1)
    }
    pub fn next(&mut self) -> u64 {
        let mut x = self.0;
        x ^= x >> 12;
        x ^= x << 25;
        x ^= x >> 27;
        self.0 = x;
        x.wrapping_mul(0x2545F4914F6CDD1D)
    }
    pub fn below(&mut self, n: usize) -> usize {
        (self.next() >> 16) as usize % n.max(1)
    }
    pub fn chance(&mut self, num: usize, den: usize) -> bool {
        self.below(den) < num
    }
    pub fn pick<T: Copy>(&mut self, v: &[T]) -> T {
        v[self.below(v.len())]
    }
}

// --------------------------------------------------------------------------
// enumeration

mod enumerate;

fn main() {
    println!("cargo:rerun-if-env-changed=VERIF_TIER");
    println!("cargo:rerun-if-env-changed=VERIF_SEED");
    println!("cargo:rerun-if-env-changed=CORPUS_SHARD");
    println!("cargo:rerun-if-env-changed=CORPUS_KIND");
    println!("cargo:rerun-if-env-changed=CORPUS_NONCE");
    println!("cargo:rerun-if-changed=build.rs");
    println!("cargo:rerun-if-changed=enumerate.rs");
    println!("cargo:rerun-if-changed=witness.rs");

    // Panics of the code under analysis are caught and recorded; keep the log quiet.
    std::panic::set_hook(Box::new(|_| {}));

    let out = PathBuf::from(env::var("OUT_DIR").unwrap());
    let tier = env::var("VERIF_TIER").unwrap_or_else(|_| "quick".into());
    let thorough = tier == "thorough";
    let seed: u64 = env::var("VERIF_SEED").ok().and_then(|s| s.parse().ok()).unwrap_or(1);
    let kind = env::var("CORPUS_KIND").unwrap_or_else(|_| "main".into());
    let (shard_i, shard_n) = env::var("CORPUS_SHARD")
        .ok()
        .and_then(|s| {
            let mut it = s.split('/');
            Some((it.next()?.parse::<usize>().ok()?, it.next()?.parse::<usize>().ok()?))
        })
        .unwrap_or((0, 1));

    let mut mods_rs = String::new();
    let mut index: Vec<Value> = Vec::new();

    match kind.as_str() {
        "adaptive" => {
            println!("cargo:rerun-if-env-changed=CORPUS_THRESHOLDS");
            let th: Vec<usize> = env::var("CORPUS_THRESHOLDS")
                .unwrap_or_default()
                .split(',')
                .filter_map(|s| s.trim().parse().ok())
                .collect();
            let specs = enumerate::adaptive(&th);
            emit_modules(&out, &specs, shard_i, shard_n, &mut mods_rs, &mut index, false);
        }
        "witness" => {
            let specs = witness::specs(thorough);
            emit_modules(&out, &specs, shard_i, shard_n, &mut mods_rs, &mut index, true);
        }
        _ => {
            let specs = enumerate::specs(thorough, seed);
            emit_modules(&out, &specs, shard_i, shard_n, &mut mods_rs, &mut index, false);
        }
    }

    fs::write(out.join("mods.rs"), mods_rs).unwrap();
    let doc = json!({
        "tier": tier, "seed": seed, "kind": kind,
        "shard": [shard_i, shard_n],
        "nonce": env::var("CORPUS_NONCE").unwrap_or_default(),
        "modules": index,
    });
    fs::write(out.join("index.json"), serde_json::to_string(&doc).unwrap()).unwrap();
    // Also publish where the driver's consumer can find it without knowing OUT_DIR.
    if let Ok(dir) = env::var("CORPUS_INDEX_DIR") {
        let _ = fs::create_dir_all(&dir);
        fs::write(
            PathBuf::from(&dir).join(format!("index-{}-{}.json", kind, shard_i)),
            serde_json::to_string(&doc).unwrap(),
        )
        .unwrap();
    }
    println!("cargo:rerun-if-env-changed=CORPUS_INDEX_DIR");
}

fn emit_modules(
    out: &PathBuf,
    specs: &[ModuleSpec],
    shard_i: usize,
    shard_n: usize,
    mods_rs: &mut String,
    index: &mut Vec<Value>,
    separate_files: bool,
) {
    let excluded: Vec<String> = env::var("CORPUS_EXCLUDE")
        .map(|s| s.split(',').map(str::to_owned).collect())
        .unwrap_or_default();
    println!("cargo:rerun-if-env-changed=CORPUS_EXCLUDE");
    for (i, spec) in specs.iter().enumerate() {
        if i % shard_n != shard_i {
            continue;
        }
        let name = format!("m{:04}", i);
        let mut entry = json!({
            "module": name,
            "tag": spec.tag,
            "history": spec.history.iter().map(Step::to_json).collect::<Vec<_>>(),
            "clone": spec.clone,
            "serde": spec.serde,
            "expect": spec.expect,
        });
        match run_history(&spec.history) {
            Err(msg) => {
                entry["builder_panic"] = json!(msg);
            }
            Ok(def) => {
                entry["definition"] = sidecar(&def);
                // capacity / alignment / text rendering must not panic (C13)
                match catch_unwind(AssertUnwindSafe(|| def.max_size())) {
                    Ok(v) => entry["max_size"] = json!(v),
                    Err(e) => entry["max_size_panic"] = json!(panic_msg(e)),
                }
                match catch_unwind(AssertUnwindSafe(|| def.max_type_align())) {
                    Ok(v) => entry["max_type_align"] = json!(v),
                    Err(e) => entry["max_type_align_panic"] = json!(panic_msg(e)),
                }
                match catch_unwind(AssertUnwindSafe(|| def.to_string())) {
                    Ok(v) => entry["display"] = json!(v),
                    Err(e) => entry["display_panic"] = json!(panic_msg(e)),
                }
                let cfg = config(spec.clone, spec.serde);
                match catch_unwind(AssertUnwindSafe(|| generate(&def, &cfg))) {
                    Err(e) => entry["generator_panic"] = json!(panic_msg(e)),
                    Ok(_) if spec.definition_only => {
                        entry["definition_only"] = json!(true);
                    }
                    Ok(text) => {
                        let file = out.join(format!("{}.rs", name));
                        fs::write(&file, &text).unwrap();
                        entry["file"] = json!(file.display().to_string());
                        if excluded.contains(&name) {
                            entry["excluded"] = json!(true);
                        } else if !separate_files {
                            let _ = writeln!(
                                mods_rs,
                                "pub mod {} {{ include!(concat!(env!(\"OUT_DIR\"), \"/{}.rs\")); }}",
                                name, name
                            );
                        }
                    }
                }
            }
        }
        index.push(entry);
    }
}
